// appended to src/helper/coordinate.rs of a scratch copy under #[cfg(kani)] (see tools/run_kani.py)
#[cfg(kani)]
mod __verif_codec {
    use super::*;
    fn stub_upper(s: &str) -> String { String::from(s) }

    // letters -> index: all 1-, 2- and 3-letter names over A..Z (complete: finite domain, symbolic bytes)
    #[kani::proof]
    #[kani::unwind(5)]
    #[kani::stub(str::to_uppercase, stub_upper)]
    fn k_from_alpha1() {
        let a: u8 = kani::any();
        kani::assume(a >= 65 && a <= 90);
        let arr = [a];
        let s = std::str::from_utf8(&arr).unwrap();
        let m = column_index_from_string(s);
        assert!(m == (a as u32 - 64));
    }
    #[kani::proof]
    #[kani::unwind(5)]
    #[kani::stub(str::to_uppercase, stub_upper)]
    fn k_from_alpha2() {
        let a: u8 = kani::any();
        let b: u8 = kani::any();
        kani::assume(a >= 65 && a <= 90 && b >= 65 && b <= 90);
        let arr = [a, b];
        let s = std::str::from_utf8(&arr).unwrap();
        let m = column_index_from_string(s);
        assert!(m == (a as u32 - 64) * 26 + (b as u32 - 64));
    }
    #[kani::proof]
    #[kani::unwind(5)]
    #[kani::stub(str::to_uppercase, stub_upper)]
    fn k_from_alpha3() {
        let a: u8 = kani::any();
        let b: u8 = kani::any();
        let c: u8 = kani::any();
        kani::assume(a >= 65 && a <= 90 && b >= 65 && b <= 90 && c >= 65 && c <= 90);
        let arr = [a, b, c];
        let s = std::str::from_utf8(&arr).unwrap();
        let m = column_index_from_string(s);
        assert!(m == (a as u32 - 64) * 676 + (b as u32 - 64) * 26 + (c as u32 - 64));
    }

    // index -> letters: every column 1..=16384 gives exactly the bijective base-26 numeral
    #[kani::proof]
    #[kani::unwind(4)]
    fn k_to_alpha() {
        let n: u32 = kani::any();
        kani::assume(n >= 1 && n <= 16384);
        let s = string_from_column_index(&n);
        let b = s.as_bytes();
        if n <= 26 { assert!(b.len() == 1 && b[0] as u32 == 64 + n); }
        else if n <= 702 { assert!(b.len() == 2 && (b[0] as u32 - 64) * 26 + (b[1] as u32 - 64) == n && b[0] >= 65 && b[0] <= 90 && b[1] >= 65 && b[1] <= 90); }
        else { assert!(b.len() == 3 && (b[0] as u32 - 64) * 676 + (b[1] as u32 - 64) * 26 + (b[2] as u32 - 64) == n && b[0] >= 65 && b[0] <= 90 && b[1] >= 65 && b[1] <= 90 && b[2] >= 65 && b[2] <= 90); }
    }

    // harness-level lemma (loop free, full domain): the positional value is injective and monotone on digit
    // strings of equal length and shorter names come first -- so the two directions above are mutually
    // inverse and letters are ordered like their indexes
    #[kani::proof]
    fn k_value_order() {
        let a: u32 = kani::any(); let b: u32 = kani::any(); let c: u32 = kani::any();
        let x: u32 = kani::any(); let y: u32 = kani::any(); let z: u32 = kani::any();
        kani::assume(1 <= a && a <= 26 && 1 <= b && b <= 26 && 1 <= c && c <= 26);
        kani::assume(1 <= x && x <= 26 && 1 <= y && y <= 26 && 1 <= z && z <= 26);
        let v = |p: u32, q: u32, r: u32| 676 * p + 26 * q + r;
        // lexicographic order on (a,b,c) == numeric order on value3
        let lex_lt = a < x || (a == x && (b < y || (b == y && c < z)));
        assert!(lex_lt == (v(a, b, c) < v(x, y, z)));
        assert!(((a, b, c) == (x, y, z)) == (v(a, b, c) == v(x, y, z)));
        // every 1-letter value < every 2-letter value < every 3-letter value
        assert!(c < 26 * y + z && 26 * b + c < v(x, y, z));
        // ranges: 1..=26, 27..=702, 703..=18278
        assert!(26 * b + c >= 27 && 26 * b + c <= 702 && v(a, b, c) >= 703 && v(a, b, c) <= 18278);
    }
}
