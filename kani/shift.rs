// appended to src/helper/coordinate.rs of a scratch copy under #[cfg(kani)]: loop-free, full u32 domain
// twins of the Verus contracts of the three scalar shift helpers (used for counterexamples)
#[cfg(kani)]
mod __verif_shift {
    use super::*;
    #[kani::proof]
    fn k_shift_ins() {
        let n: u32 = kani::any(); let p: u32 = kani::any(); let k: u32 = kani::any();
        kani::assume(!(k != 0 && n >= p) || (n as u64 + k as u64) <= u32::MAX as u64);
        let r = adjustment_insert_coordinate(&n, &p, &k);
        let expect = if k != 0 && n >= p { n + k } else { n };
        assert!(r == expect);
    }
    #[kani::proof]
    fn k_shift_rem() {
        let n: u32 = kani::any(); let p: u32 = kani::any(); let k: u32 = kani::any();
        kani::assume(k == 0 || n < p || n >= k);   // weakest precondition: the subtraction does not underflow
        let r = adjustment_remove_coordinate(&n, &p, &k);
        let expect = if k != 0 && n >= p { n - k } else { n };
        assert!(r == expect);
    }
    #[kani::proof]
    fn k_shift_band() {
        let n: u32 = kani::any(); let p: u32 = kani::any(); let k: u32 = kani::any();
        kani::assume(p as u64 + k as u64 <= u32::MAX as u64);
        let r = is_remove_coordinate(&n, &p, &k);
        let expect = p != 0 && k != 0 && p <= n && n < p + k;
        assert!(r == expect);
    }
}
