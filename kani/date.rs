// appended to src/helper/date.rs of a scratch copy under #[cfg(kani)]
#[cfg(kani)]
mod __verif_date {
    use super::*;
    // whole real convert_date_windows_1900 over the full date domain (time fixed to 0), including the
    // year.to_string() slicing and the `as f64` tail that the Verus unit leaves to assumed contracts,
    // against an independently written days-from-civil (Hinnant's algorithm)
    #[kani::proof]
    #[kani::unwind(12)]
    fn k_date_full() {
        let y: i32 = kani::any(); let m: i32 = kani::any(); let d: i32 = kani::any();
        kani::assume(y >= 1900 && y <= 9999 && m >= 1 && m <= 12 && d >= 1 && d <= 31);
        let r = convert_date_windows_1900(y, m, d, 0, 0, 0);
        let yy = if m <= 2 { y - 1 } else { y };
        let era = yy / 400;
        let yoe = yy - era * 400;
        let mp = (m + 9) % 12;
        let doy = (153 * mp + 2) / 5 + d - 1;
        let doe = yoe * 365 + yoe / 4 - yoe / 100 + doy;
        let days = era * 146097 + doe - 719468; // days since 1970-01-01
        let serial = days + 25569; // 1970-01-01 is serial 25569
        let expect = if y == 1900 && m <= 2 { serial - 1 } else { serial };
        assert!(r == expect as f64);
    }
}

// appended to src/helper/date.rs of a scratch copy under #[cfg(kani)]
#[cfg(kani)]
mod __verif_date_back {
    use super::*;
    use chrono::{Datelike, NaiveDate, Timelike};
    // NaiveDateTime::parse_from_str is a format-string interpreter (intractable for CBMC). The real function calls it with
    // the fixed format "%Y-%m-%d %T" on literals of the shape "YYYY-MM-DD hh:mm:ss"; the stub reads exactly that shape
    // digit by digit (so a changed literal is seen) and rejects everything else.
    fn stub_parse(s: &str, fmt: &str) -> chrono::ParseResult<NaiveDateTime> {
        let b = s.as_bytes();
        let f = fmt.as_bytes();
        let fmt_ok = f.len() == 11 && f[0] == b'%' && f[1] == b'Y' && f[2] == b'-' && f[3] == b'%' && f[4] == b'm' && f[5] == b'-'
            && f[6] == b'%' && f[7] == b'd' && f[8] == b' ' && f[9] == b'%' && f[10] == b'T';
        // anything else is NOT a violation but "this stub does not model the call": tools/run_kani.py maps the tag to undecided
        assert!(fmt_ok && b.len() == 19 && b[4] == b'-' && b[7] == b'-' && b[10] == b' ' && b[13] == b':' && b[16] == b':',
                "VERIF-UNMODELLED: parse_from_str called with a format or literal shape the stub does not model");
        let dg = |i: usize| -> u32 { assert!(b[i] >= b'0' && b[i] <= b'9', "VERIF-UNMODELLED: non-digit in a numeric field"); (b[i] - b'0') as u32 };
        let y = (dg(0) * 1000 + dg(1) * 100 + dg(2) * 10 + dg(3)) as i32;
        let (mo, d) = (dg(5) * 10 + dg(6), dg(8) * 10 + dg(9));
        let (h, mi, se) = (dg(11) * 10 + dg(12), dg(14) * 10 + dg(15), dg(17) * 10 + dg(18));
        Ok(NaiveDate::from_ymd_opt(y, mo, d).unwrap().and_hms_opt(h, mi, se).unwrap())
    }
    // the real excel_to_date_time_object on EVERY whole-day serial from 1900-03-01 (61) to 9999-12-31 (2958465)
    // against an independently written civil-from-days (Hinnant's algorithm): the calendar date the serial denotes, 00:00:00.
    // The domain is split into consecutive ranges (one harness each) because one SAT query over the whole domain does
    // not finish in budget; together the ranges cover 61..=2958465 without a gap (checked by tools/run_kani.py: ranges
    // are listed in kani/INDEX.json and must tile the domain).
    fn serial_range(lo: u32, hi: u32) {
        let n: u32 = kani::any();
        kani::assume(n >= lo && n <= hi);
        let r = excel_to_date_time_object(&(n as f64), None);
        let z = n as i64 - 25569 + 719468;
        let era = z / 146097;
        let doe = z - era * 146097;
        let yoe = (doe - doe / 1460 + doe / 36524 - doe / 146096) / 365;
        let y0 = yoe + era * 400;
        let doy = doe - (365 * yoe + yoe / 4 - yoe / 100);
        let mp = (5 * doy + 2) / 153;
        let d = doy - (153 * mp + 2) / 5 + 1;
        let m = if mp < 10 { mp + 3 } else { mp - 9 };
        let y = if m <= 2 { y0 + 1 } else { y0 };
        assert!(r.year() as i64 == y && r.month() as i64 == m && r.day() as i64 == d);
        assert!(r.hour() == 0 && r.minute() == 0 && r.second() == 0);
    }
    #[kani::proof]
    #[kani::stub(chrono::NaiveDateTime::parse_from_str, stub_parse)]
    fn k_serial_to_date_01() { serial_range(61, 80000); }
    #[kani::proof]
    #[kani::stub(chrono::NaiveDateTime::parse_from_str, stub_parse)]
    fn k_serial_to_date_02() { serial_range(80001, 285604); }
    #[kani::proof]
    #[kani::stub(chrono::NaiveDateTime::parse_from_str, stub_parse)]
    fn k_serial_to_date_03() { serial_range(285605, 491209); }
    #[kani::proof]
    #[kani::stub(chrono::NaiveDateTime::parse_from_str, stub_parse)]
    fn k_serial_to_date_04() { serial_range(491210, 696813); }
    #[kani::proof]
    #[kani::stub(chrono::NaiveDateTime::parse_from_str, stub_parse)]
    fn k_serial_to_date_05() { serial_range(696814, 902418); }
    #[kani::proof]
    #[kani::stub(chrono::NaiveDateTime::parse_from_str, stub_parse)]
    fn k_serial_to_date_06() { serial_range(902419, 1108023); }
    #[kani::proof]
    #[kani::stub(chrono::NaiveDateTime::parse_from_str, stub_parse)]
    fn k_serial_to_date_07() { serial_range(1108024, 1313627); }
    #[kani::proof]
    #[kani::stub(chrono::NaiveDateTime::parse_from_str, stub_parse)]
    fn k_serial_to_date_08() { serial_range(1313628, 1519232); }
    #[kani::proof]
    #[kani::stub(chrono::NaiveDateTime::parse_from_str, stub_parse)]
    fn k_serial_to_date_09() { serial_range(1519233, 1724837); }
    #[kani::proof]
    #[kani::stub(chrono::NaiveDateTime::parse_from_str, stub_parse)]
    fn k_serial_to_date_10() { serial_range(1724838, 1930441); }
    #[kani::proof]
    #[kani::stub(chrono::NaiveDateTime::parse_from_str, stub_parse)]
    fn k_serial_to_date_11() { serial_range(1930442, 2136046); }
    #[kani::proof]
    #[kani::stub(chrono::NaiveDateTime::parse_from_str, stub_parse)]
    fn k_serial_to_date_12() { serial_range(2136047, 2341651); }
    #[kani::proof]
    #[kani::stub(chrono::NaiveDateTime::parse_from_str, stub_parse)]
    fn k_serial_to_date_13() { serial_range(2341652, 2547255); }
    #[kani::proof]
    #[kani::stub(chrono::NaiveDateTime::parse_from_str, stub_parse)]
    fn k_serial_to_date_14() { serial_range(2547256, 2752860); }
    #[kani::proof]
    #[kani::stub(chrono::NaiveDateTime::parse_from_str, stub_parse)]
    fn k_serial_to_date_15() { serial_range(2752861, 2958465); }
    // serials 1..=59 (1900-01-01 .. 1900-02-28, before the phantom leap day): the date is 1899-12-31 + n days
    #[kani::proof]
    #[kani::stub(chrono::NaiveDateTime::parse_from_str, stub_parse)]
    fn k_serial_to_date_0() {
        let n: u32 = kani::any();
        kani::assume(n >= 1 && n <= 59);
        let r = excel_to_date_time_object(&(n as f64), None);
        let (m, d) = if n <= 31 { (1, n) } else { (2, n - 31) };
        assert!(r.year() == 1900 && r.month() == m && r.day() == d);
        assert!(r.hour() == 0 && r.minute() == 0 && r.second() == 0);
    }
}
