// appended to src/helper/date.rs of a scratch copy under #[cfg(kani)]
#[cfg(kani)]
mod __verif_date {
    use super::*;
    // whole real convert_date_windows_1900 over the full date domain (time fixed to 0), including the
    // year.to_string() slicing and the `as f64` tail that the Verus unit leaves to assumed contracts,
    // against an independently written days-from-civil (Hinnant's algorithm)
    #[kani::proof]
    #[kani::unwind(12)]
    fn k_date_full() {
        let y: i32 = kani::any(); let m: i32 = kani::any(); let d: i32 = kani::any();
        kani::assume(y >= 1900 && y <= 9999 && m >= 1 && m <= 12 && d >= 1 && d <= 31);
        let r = convert_date_windows_1900(y, m, d, 0, 0, 0);
        let yy = if m <= 2 { y - 1 } else { y };
        let era = yy / 400;
        let yoe = yy - era * 400;
        let mp = (m + 9) % 12;
        let doy = (153 * mp + 2) / 5 + d - 1;
        let doe = yoe * 365 + yoe / 4 - yoe / 100 + doy;
        let days = era * 146097 + doe - 719468; // days since 1970-01-01
        let serial = days + 25569; // 1970-01-01 is serial 25569
        let expect = if y == 1900 && m <= 2 { serial - 1 } else { serial };
        assert!(r == expect as f64);
    }
}
