use vstd::prelude::*;
use std::collections::{BTreeSet, HashMap};
use vstd::std_specs::hash::obeys_key_model;
verus! {

pub open spec fn ins(n: u32, p: u32, k: u32) -> int { if k != 0 && n >= p { n + k } else { n as int } }
pub open spec fn shifted_key(r: u32, c: u32, rc: u32, oc: u32, rr: u32, orr: u32) -> (u32, u32) { (ins(r, rr, orr) as u32, ins(c, rc, oc) as u32) }
proof fn lemma_ins_injective(a: u32, b: u32, p: u32, k: u32)
    requires ins(a, p, k) == ins(b, p, k) ensures a == b {}

#[verifier::external_body]
pub struct Payload { _p: u8 }
pub struct Coordinate { col: u32, row: u32 }
pub struct Cell { coordinate: Coordinate, payload: Payload }
impl Cell {
    pub closed spec fn col(&self) -> u32 { self.coordinate.col }
    pub closed spec fn row(&self) -> u32 { self.coordinate.row }
    pub closed spec fn pl(&self) -> Payload { self.payload }
    pub open spec fn key(&self) -> (u32, u32) { (self.row(), self.col()) }
    pub open spec fn ins_pre(&self, rc: u32, oc: u32, rr: u32, orr: u32) -> bool { ins(self.col(), rc, oc) <= u32::MAX && ins(self.row(), rr, orr) <= u32::MAX }
    pub open spec fn ins_post(&self, fin: &Cell, rc: u32, oc: u32, rr: u32, orr: u32) -> bool {
        fin.col() == ins(self.col(), rc, oc) && fin.row() == ins(self.row(), rr, orr) && fin.pl() == self.pl()
    }
}

pub struct Cells {
    map: HashMap<(u32, u32), Box<Cell>>,
    row_column_index: BTreeSet<(u32, u32)>,
    column_row_index: BTreeSet<(u32, u32)>,
}

impl Cells {
    pub closed spec fn m(&self) -> Map<(u32,u32), Box<Cell>> { self.map@ }
    pub closed spec fn i1(&self) -> Set<(u32,u32)> { self.row_column_index@ }
    pub closed spec fn i2(&self) -> Set<(u32,u32)> { self.column_row_index@ }
    pub open spec fn wf(&self) -> bool {
        &&& forall|r: u32, c: u32| self.m().contains_key((r, c)) <==> self.i1().contains((r, c))
        &&& forall|r: u32, c: u32| self.m().contains_key((r, c)) <==> self.i2().contains((c, r))
        &&& forall|k: (u32,u32)| self.m().contains_key(k) ==> (#[trigger] self.m()[k]).key() == k
    }
    pub open spec fn keys_distinct(&self) -> bool {
        forall|k1: (u32,u32), k2: (u32,u32)| self.m().contains_key(k1) && self.m().contains_key(k2) && k1 != k2 ==> (#[trigger] self.m()[k1]).key() != (#[trigger] self.m()[k2]).key()
    }

    // outlined statements (assumed contracts)
    #[verifier::external_body]
    fn __outl_rekey(&mut self)
        ensures
            final(self).i1() == old(self).i1(), final(self).i2() == old(self).i2(),
            forall|k: (u32,u32)| old(self).m().contains_key(k) ==> final(self).m().contains_key((#[trigger] old(self).m()[k]).key()),
            forall|k2: (u32,u32)| final(self).m().contains_key(k2) ==> exists|k: (u32,u32)| old(self).m().contains_key(k) && (#[trigger] old(self).m()[k]).key() == k2 && final(self).m()[k2] == old(self).m()[k],
    { unimplemented!() }
    #[verifier::external_body]
    fn __outl_index1(&mut self)
        ensures final(self).m() == old(self).m(), final(self).i2() == old(self).i2(),
            forall|k: (u32,u32)| final(self).i1().contains(k) <==> old(self).m().contains_key(k),
    { unimplemented!() }
    #[verifier::external_body]
    fn __outl_index2(&mut self)
        ensures final(self).m() == old(self).m(), final(self).i1() == old(self).i1(),
            forall|r: u32, c: u32| final(self).i2().contains((c, r)) <==> old(self).m().contains_key((r, c)),
    { unimplemented!() }
    #[verifier::external_body]
    fn __outl_shift_values(&mut self, root_col_num: &u32, offset_col_num: &u32, root_row_num: &u32, offset_row_num: &u32)
        requires forall|k: (u32,u32)| old(self).m().contains_key(k) ==> (#[trigger] old(self).m()[k]).ins_pre(*root_col_num, *offset_col_num, *root_row_num, *offset_row_num),
        ensures final(self).i1() == old(self).i1(), final(self).i2() == old(self).i2(),
            final(self).m().dom() == old(self).m().dom(),
            forall|k: (u32,u32)| old(self).m().contains_key(k) ==> (#[trigger] old(self).m()[k]).ins_post(&*final(self).m()[k], *root_col_num, *offset_col_num, *root_row_num, *offset_row_num),
    { unimplemented!() }

    pub(crate) fn rebuild_map_and_indices(&mut self)
        requires old(self).keys_distinct(),
        ensures final(self).wf(),
            forall|k: (u32,u32)| old(self).m().contains_key(k) ==> final(self).m().contains_key((#[trigger] old(self).m()[k]).key()) && final(self).m()[old(self).m()[k].key()] == old(self).m()[k],
            forall|k2: (u32,u32)| final(self).m().contains_key(k2) ==> exists|k: (u32,u32)| old(self).m().contains_key(k) && (#[trigger] old(self).m()[k]).key() == k2,
    {
        self.__outl_rekey();
        self.__outl_index1();
        self.__outl_index2();
    }

    fn adjustment_insert_coordinate(&mut self, root_col_num: &u32, offset_col_num: &u32, root_row_num: &u32, offset_row_num: &u32)
        requires old(self).wf(),
            forall|k: (u32,u32)| old(self).m().contains_key(k) ==> (#[trigger] old(self).m()[k]).ins_pre(*root_col_num, *offset_col_num, *root_row_num, *offset_row_num),
        ensures final(self).wf(),
            forall|r: u32, c: u32| #[trigger] old(self).m().contains_key((r, c)) ==>
                final(self).m().contains_key(shifted_key(r, c, *root_col_num, *offset_col_num, *root_row_num, *offset_row_num))
                && old(self).m()[(r, c)].pl() == final(self).m()[shifted_key(r, c, *root_col_num, *offset_col_num, *root_row_num, *offset_row_num)].pl(),
            forall|k2: (u32,u32)| final(self).m().contains_key(k2) ==> exists|r: u32, c: u32| #[trigger] old(self).m().contains_key((r, c)) && k2 == (ins(r, *root_row_num, *offset_row_num) as u32, ins(c, *root_col_num, *offset_col_num) as u32),
    {
        self.__outl_shift_values(root_col_num, offset_col_num, root_row_num, offset_row_num);
        proof {
            let mid = *self;
            assert forall|k1: (u32,u32), k2: (u32,u32)| mid.m().contains_key(k1) && mid.m().contains_key(k2) && k1 != k2 implies (#[trigger] mid.m()[k1]).key() != (#[trigger] mid.m()[k2]).key() by {
                assert(old(self).m().contains_key(k1) && old(self).m().contains_key(k2));
                assert(old(self).m()[k1].key() == k1 && old(self).m()[k2].key() == k2);
                assert(old(self).m()[k1].ins_post(&*mid.m()[k1], *root_col_num, *offset_col_num, *root_row_num, *offset_row_num));
                assert(old(self).m()[k2].ins_post(&*mid.m()[k2], *root_col_num, *offset_col_num, *root_row_num, *offset_row_num));
                if mid.m()[k1].key() == mid.m()[k2].key() {
                    lemma_ins_injective(k1.0, k2.0, *root_row_num, *offset_row_num);
                    lemma_ins_injective(k1.1, k2.1, *root_col_num, *offset_col_num);
                }
            }
        }
        let ghost mid = *self;
        self.rebuild_map_and_indices();
        proof {
            assert forall|r: u32, c: u32| #[trigger] old(self).m().contains_key((r, c)) implies
                self.m().contains_key(shifted_key(r, c, *root_col_num, *offset_col_num, *root_row_num, *offset_row_num))
                && old(self).m()[(r, c)].pl() == self.m()[shifted_key(r, c, *root_col_num, *offset_col_num, *root_row_num, *offset_row_num)].pl() by {
                let k = (r, c);
                assert(mid.m().contains_key(k));
                assert(old(self).m()[k].key() == k);
                assert(old(self).m()[k].ins_post(&*mid.m()[k], *root_col_num, *offset_col_num, *root_row_num, *offset_row_num));
                assert(self.m().contains_key(mid.m()[k].key()));
            }
            assert forall|k2: (u32,u32)| self.m().contains_key(k2) implies (exists|r: u32, c: u32| #[trigger] old(self).m().contains_key((r, c)) && k2 == (ins(r, *root_row_num, *offset_row_num) as u32, ins(c, *root_col_num, *offset_col_num) as u32)) by {
                let k = choose|k: (u32,u32)| mid.m().contains_key(k) && (#[trigger] mid.m()[k]).key() == k2;
                assert(old(self).m().contains_key(k));
                assert(old(self).m()[k].key() == k);
                assert(old(self).m()[k].ins_post(&*mid.m()[k], *root_col_num, *offset_col_num, *root_row_num, *offset_row_num));
                assert(old(self).m().contains_key((k.0, k.1)));
            }
        }
    }
}

}
fn main() {}
