use vstd::prelude::*;
verus! {

pub open spec fn is_leap(y: int) -> bool { (y % 4 == 0 && y % 100 != 0) || y % 400 == 0 }
pub open spec fn days_in_year(y: int) -> int { if is_leap(y) { 366 } else { 365 } }
// days from 0000-03-01 style: count days of whole years [1900, y)
pub open spec fn days_before_year(y: int) -> int
  decreases y - 1900
{ if y <= 1900 { 0 } else { days_before_year(y - 1) + days_in_year(y - 1) } }

pub open spec fn cum_month(m: int, leap: bool) -> int {
  let base: int = if m == 1 {0} else if m == 2 {31} else if m == 3 {59} else if m == 4 {90} else if m == 5 {120} else if m == 6 {151}
     else if m == 7 {181} else if m == 8 {212} else if m == 9 {243} else if m == 10 {273} else if m == 11 {304} else {334};
  if leap && m > 2 { base + 1 } else { base }
}
// true day count from 1899-12-31 (serial 1 = 1900-01-01), proleptic Gregorian
pub open spec fn true_days(y: int, m: int, d: int) -> int {
  days_before_year(y) + cum_month(m, is_leap(y)) + d
}
// Excel 1900 serial: +1 for dates from 1900-03-01 (phantom leap day)
pub open spec fn excel_serial(y: int, m: int, d: int) -> int {
  true_days(y, m, d) + (if y > 1900 || m > 2 { 1int } else { 0int })
}

pub open spec fn julian_formula(year: int, month: int, day: int) -> int {
  let leapadj: int = if year == 1900 && month <= 2 { 0 } else { 1 };
  let (m2, y2) = if month > 2 { (month - 3, year) } else { (month + 9, year - 1) };
  let century = y2 / 100;
  let decade = y2 % 100;
  (146097 * century) / 4 + (1461 * decade) / 4 + (153 * m2 + 2) / 5 + day + 1721119 - 2415020 + leapadj
}

// closed form for days_before_year
pub open spec fn leaps_upto(y: int) -> int { y / 4 - y / 100 + y / 400 }
proof fn lemma_days_before_year(y: int)
  requires 1900 <= y <= 10000
  ensures days_before_year(y) == 365 * (y - 1900) + leaps_upto(y - 1) - leaps_upto(1899)
  decreases y - 1900
{
  if y > 1900 {
    lemma_days_before_year(y - 1);
  }
}

proof fn lemma_julian(y: int, m: int, d: int)
  requires 1900 <= y <= 9999, 1 <= m <= 12, 1 <= d <= 31
  ensures julian_formula(y, m, d) == excel_serial(y, m, d)
{
  lemma_days_before_year(y);
}

}
fn main() {}
