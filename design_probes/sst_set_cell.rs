use vstd::prelude::*;
use std::collections::HashMap;
verus! {

pub type ThinVec<T> = Vec<T>;

#[verifier::external_body]
pub struct CellValue { _p: u8 }
#[verifier::external_body]
pub struct Text { _p: u8 }
#[verifier::external_body]
pub struct RichText { _p: u8 }
#[verifier::external_body]
pub struct SharedStringItem { _p: u8 }

pub uninterp spec fn cv_text(v: &CellValue) -> Option<Text>;
pub uninterp spec fn cv_rich(v: &CellValue) -> Option<RichText>;
pub uninterp spec fn ssi_text(v: &SharedStringItem) -> Option<Text>;
pub uninterp spec fn ssi_rich(v: &SharedStringItem) -> Option<RichText>;
pub uninterp spec fn ssi_hash(t: Option<Text>, r: Option<RichText>) -> u64;

impl CellValue {
    #[verifier::external_body]
    pub(crate) fn get_text(&self) -> (r: Option<Text>) ensures r == cv_text(self) { unimplemented!() }
    #[verifier::external_body]
    pub(crate) fn get_rich_text(&self) -> (r: Option<RichText>) ensures r == cv_rich(self) { unimplemented!() }
}
impl SharedStringItem {
    #[verifier::external_body]
    pub fn default() -> (r: Self) ensures ssi_text(&r) is None, ssi_rich(&r) is None { unimplemented!() }
    #[verifier::external_body]
    pub(crate) fn set_text(&mut self, value: Text) -> (r: &mut Self) ensures ssi_text(final(self)) == Some(value), ssi_rich(final(self)) == ssi_rich(old(self)) { unimplemented!() }
    #[verifier::external_body]
    pub(crate) fn set_rich_text(&mut self, value: RichText) -> (r: &mut Self) ensures ssi_rich(final(self)) == Some(value), ssi_text(final(self)) == ssi_text(old(self)) { unimplemented!() }
    #[verifier::external_body]
    pub(crate) fn get_hash_u64(&self) -> (h: u64) ensures h == ssi_hash(ssi_text(self), ssi_rich(self)) { unimplemented!() }
}

pub(crate) struct SharedStringTable {
    shared_string_item: ThinVec<SharedStringItem>,
    map: HashMap<u64, usize>,
    regist_count: usize,
}

impl SharedStringTable {
    pub closed spec fn items(&self) -> Seq<SharedStringItem> { self.shared_string_item@ }
    pub closed spec fn wf(&self) -> bool {
        forall|h: u64| #[trigger] self.map@.contains_key(h) ==> self.map@[h] < self.shared_string_item@.len()
            && ssi_hash(ssi_text(&self.shared_string_item@[self.map@[h] as int]), ssi_rich(&self.shared_string_item@[self.map@[h] as int])) == h
    }

    #[inline]
    pub(crate) fn set_shared_string_item(&mut self, value: SharedStringItem) -> (r: &mut Self)
        ensures r.shared_string_item@ == old(self).shared_string_item@.push(value),
           r.map == old(self).map, r.regist_count == old(self).regist_count,
           *final(r) == *final(self),
    {
        self.shared_string_item.push(value);
        self
    }

    pub(crate) fn set_cell(&mut self, value: &CellValue) -> (n: usize)
        requires old(self).wf(), old(self).regist_count < usize::MAX,
        ensures final(self).wf(),
            n < final(self).items().len(),
            old(self).items().is_prefix_of(final(self).items()),
            ssi_hash(ssi_text(&final(self).items()[n as int]), ssi_rich(&final(self).items()[n as int])) == ssi_hash(cv_text(value), cv_rich(value)),
            final(self).items().len() <= old(self).items().len() + 1,
    {
        self.regist_count += 1;

        let mut shared_string_item = SharedStringItem::default();

        if let Some(v) = value.get_text() {
            shared_string_item.set_text(v);
        }
        if let Some(v) = value.get_rich_text() {
            shared_string_item.set_rich_text(v);
        }

        let hash_code = shared_string_item.get_hash_u64();
        let n = match self.map.get(&hash_code) {
            Some(v) => *v,
            None => {
                let n = self.shared_string_item.len();
                self.map.insert(hash_code, n);
                self.set_shared_string_item(shared_string_item);
                n
            }
        };
        n
    }
}

}
fn main() {}
