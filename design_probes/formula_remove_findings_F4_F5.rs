#![feature(allocator_api)]
use vstd::prelude::*;
use vstd::std_specs::iter::IteratorSpec;
verus! {

pub open spec fn ins(n: u32, p: u32, k: u32) -> int { if k != 0 && n >= p { n + k } else { n as int } }
pub(crate) fn adjustment_insert_coordinate(num: &u32, root_num: &u32, offset_num: &u32) -> (r: u32)
    requires ins(*num, *root_num, *offset_num) <= u32::MAX,
    ensures r == ins(*num, *root_num, *offset_num),
{ if (num >= root_num && offset_num != &0) { num + offset_num } else { *num } }

pub open spec fn in_band(n: u32, p: u32, k: u32) -> bool { p != 0 && k != 0 && p <= n && n < p + k }
pub open spec fn rem(n: u32, p: u32, k: u32) -> int { if k != 0 && n >= p { n - k } else { n as int } }
pub open spec fn rem_ok(n: u32, p: u32, k: u32) -> bool { k == 0 || (p >= 1 && !in_band(n, p, k)) }
pub(crate) fn adjustment_remove_coordinate(num: &u32, root_num: &u32, offset_num: &u32) -> (r: u32)
    requires rem_ok(*num, *root_num, *offset_num),
    ensures r == rem(*num, *root_num, *offset_num),
{ if (num >= root_num && offset_num != &0) { num - offset_num } else { *num } }

#[derive(PartialEq, Eq, Structural)]
pub enum FormulaTokenTypes { Noop, Operand, Function, Subexpression, Argument, OperatorPrefix, OperatorInfix, OperatorPostfix, Whitespace, Unknown }
#[derive(PartialEq, Eq, Structural)]
pub enum FormulaTokenSubTypes { Nothing, Start, Stop, Text, Number, Logical, Error, Range, Math, Concatenation, Intersection, Union }

#[verifier::external_body]
pub struct StringValue { _p: u8 }
pub uninterp spec fn sv_view(v: &StringValue) -> Seq<char>;

pub struct FormulaToken {
    value: StringValue,
    token_type: FormulaTokenTypes,
    token_sub_type: FormulaTokenSubTypes,
}
impl FormulaToken {
    pub closed spec fn val(&self) -> Seq<char> { sv_view(&self.value) }
    pub closed spec fn ty(&self) -> FormulaTokenTypes { self.token_type }
    pub closed spec fn sub(&self) -> FormulaTokenSubTypes { self.token_sub_type }
    #[verifier::external_body]
    pub fn get_value(&self) -> (r: &str) ensures r@ == self.val() { unimplemented!() }
    #[verifier::external_body]
    pub fn set_value(&mut self, value: String) -> (r: &mut Self)
        ensures r.val() == value@, r.ty() == old(self).ty(), r.sub() == old(self).sub(), *final(r) == *final(self)
    { unimplemented!() }
    pub fn get_token_type(&self) -> (r: &FormulaTokenTypes) ensures *r == self.ty() { &self.token_type }
    pub fn get_token_sub_type(&self) -> (r: &FormulaTokenSubTypes) ensures *r == self.sub() { &self.token_sub_type }
}

pub type CellIndex = (Option<u32>, Option<u32>, Option<bool>, Option<bool>);
pub uninterp spec fn sp_parse(c: Seq<char>) -> CellIndex;
pub uninterp spec fn sp_print(col: u32, row: u32, lc: bool, lr: bool) -> Seq<char>;
pub uninterp spec fn sp_sheet(v: Seq<char>) -> Seq<char>;
pub uninterp spec fn sp_range(v: Seq<char>) -> Seq<char>;
pub uninterp spec fn sp_join_address(sheet: Seq<char>, range: Seq<char>) -> Seq<char>;
pub uninterp spec fn sp_parts(range: Seq<char>) -> Seq<Seq<char>>;
pub uninterp spec fn sp_join_parts(parts: Seq<Seq<char>>) -> Seq<char>;
pub uninterp spec fn sp_render(vals: Seq<FormulaToken>) -> Seq<char>;

#[verifier::external_body]
pub fn index_from_coordinate(coordinate: &&str) -> (r: CellIndex) ensures r == sp_parse(coordinate@) { unimplemented!() }
#[verifier::external_body]
pub fn split_address(address: &str) -> (r: (&str, &str)) ensures r.0@ == sp_sheet(address@), r.1@ == sp_range(address@) { unimplemented!() }
#[verifier::external_body]
pub fn join_address(sheet_name: &str, address: &str) -> (r: String) ensures r@ == sp_join_address(sheet_name@, address@) { unimplemented!() }
pub open spec fn strs(v: Seq<&str>) -> Seq<Seq<char>> { Seq::new(v.len(), |i: int| v[i]@) }
pub open spec fn strings(v: Seq<String>) -> Seq<Seq<char>> { Seq::new(v.len(), |i: int| v[i]@) }
#[verifier::external_body]
pub fn get_split_range(range: &str) -> (r: Vec<&str>) ensures strs(r@) == sp_parts(range@) { unimplemented!() }
#[verifier::external_body]
pub fn get_join_range(coordinate_list: &[String]) -> (r: String) ensures r@ == sp_join_parts(strings(coordinate_list@)) { unimplemented!() }
#[verifier::external_body]
pub fn coordinate_from_index_with_lock(col: &u32, row: &u32, is_lock_col: &bool, is_lock_row: &bool) -> (r: String)
    ensures r@ == sp_print(*col, *row, *is_lock_col, *is_lock_row) { unimplemented!() }
#[verifier::external_body]
fn __outl_to_string(coordinate: &&str) -> (r: String) ensures r@ == coordinate@ { coordinate.to_string() }
#[verifier::external_body]
fn __outl_render(token_list: &mut [FormulaToken]) -> (r: String) ensures r@ == sp_render(old(token_list)@), final(token_list)@ == old(token_list)@ { unimplemented!() }

pub open spec fn part_ok(c: Seq<char>, rc: u32, oc: u32, rr: u32, orr: u32) -> bool {
    let p = sp_parse(c);
    (p.0 is Some && p.1 is Some) ==> ins(p.0->0, rc, oc) <= u32::MAX && ins(p.1->0, rr, orr) <= u32::MAX
}
pub open spec fn ins_part(c: Seq<char>, rc: u32, oc: u32, rr: u32, orr: u32) -> Seq<char> {
    let p = sp_parse(c);
    if p.0 is Some && p.1 is Some {
        let lc = if p.2 is Some { p.2->0 } else { false };
        let lr = if p.3 is Some { p.3->0 } else { false };
        sp_print(if lc { p.0->0 } else { ins(p.0->0, rc, oc) as u32 }, if lr { p.1->0 } else { ins(p.1->0, rr, orr) as u32 }, lc, lr)
    } else { c }
}
pub open spec fn sheet_match(v: Seq<char>, ws: Seq<char>, self_ws: Seq<char>, ignore: bool) -> bool {
    ignore || (sp_sheet(v) == ""@ && ws == self_ws) || sp_sheet(v) == ws
}
pub open spec fn is_ref_token(t: &FormulaToken) -> bool { t.ty() == FormulaTokenTypes::Operand && t.sub() == FormulaTokenSubTypes::Range }
pub open spec fn ins_value(v: Seq<char>, rc: u32, oc: u32, rr: u32, orr: u32) -> Seq<char> {
    sp_join_address(sp_sheet(v), sp_join_parts(sp_parts(sp_range(v)).map_values(|c: Seq<char>| ins_part(c, rc, oc, rr, orr))))
}
pub open spec fn tok_ok(t: &FormulaToken, rc: u32, oc: u32, rr: u32, orr: u32) -> bool {
    forall|k: int| 0 <= k < sp_parts(sp_range(t.val())).len() ==> part_ok(#[trigger] sp_parts(sp_range(t.val()))[k], rc, oc, rr, orr)
}
pub open spec fn tok_post(o: &FormulaToken, n: &FormulaToken, rc: u32, oc: u32, rr: u32, orr: u32, ws: Seq<char>, self_ws: Seq<char>, ignore: bool) -> bool {
    n.ty() == o.ty() && n.sub() == o.sub() &&
    n.val() == (if is_ref_token(o) && sheet_match(o.val(), ws, self_ws, ignore) { ins_value(o.val(), rc, oc, rr, orr) } else { o.val() })
}

pub assume_specification<'a, T>[<&'a mut [T] as core::iter::IntoIterator>::into_iter](v: &'a mut [T]) -> (it: core::slice::IterMut<'a, T>)
  ensures it.remaining().len() == old(v)@.len(),
    forall|i: int| 0 <= i < old(v)@.len() ==> *it.remaining()[i] == old(v)@[i],
    forall|i: int| 0 <= i < old(v)@.len() ==> *final(it.remaining()[i]) == final(v)@[i],
    final(v)@.len() == old(v)@.len(),
    it.obeys_prophetic_iter_laws(), it.decrease() is Some, it.will_return_none();

pub fn adjustment_insert_formula_coordinate(
    token_list: &mut [FormulaToken],
    root_col_num: &u32,
    offset_col_num: &u32,
    root_row_num: &u32,
    offset_row_num: &u32,
    worksheet_name: &str,
    self_worksheet_name: &str,
    ignore_worksheet: bool,
) -> (res: String)
    requires forall|i: int| 0 <= i < old(token_list)@.len() ==> tok_ok(#[trigger] &old(token_list)@[i], *root_col_num, *offset_col_num, *root_row_num, *offset_row_num),
    ensures final(token_list)@.len() == old(token_list)@.len(),
        forall|i: int| 0 <= i < old(token_list)@.len() ==> tok_post(#[trigger] &old(token_list)@[i], &final(token_list)@[i], *root_col_num, *offset_col_num, *root_row_num, *offset_row_num, worksheet_name@, self_worksheet_name@, ignore_worksheet),
        res@ == sp_render(final(token_list)@),
{
    for token in it: token_list.into_iter()
        invariant
            it.seq().len() == old(token_list)@.len(),
            forall|i: int| 0 <= i < old(token_list)@.len() ==> tok_ok(#[trigger] &old(token_list)@[i], *root_col_num, *offset_col_num, *root_row_num, *offset_row_num),
            forall|j: int| 0 <= j < it.seq().len() ==> *it.seq()[j] == old(token_list)@[j],
            forall|j: int| 0 <= j < it.index() ==> tok_post(#[trigger] &old(token_list)@[j], &*final(it.seq()[j]), *root_col_num, *offset_col_num, *root_row_num, *offset_row_num, worksheet_name@, self_worksheet_name@, ignore_worksheet),
    {
        proof { assert(*token == old(token_list)@[it.index()]); }
        let ghost tok0 = *token;
        if token.get_token_type() == &FormulaTokenTypes::Operand
            && token.get_token_sub_type() == &FormulaTokenSubTypes::Range
        {
            let (sheet_name, range) = split_address(token.get_value());
            proof { assert(sheet_name@ == sp_sheet(tok0.val())); }
            if ignore_worksheet
                || (sheet_name == "" && worksheet_name == self_worksheet_name)
                || (sheet_name == worksheet_name)
            {
                let mut coordinate_list_new: Vec<String> = Vec::new();
                let coordinate_list = get_split_range(range);
                proof {
                    let ghost idx = it.index();
                    assert(*token == old(token_list)@[idx]);
                    assert(tok_ok(&old(token_list)@[idx], *root_col_num, *offset_col_num, *root_row_num, *offset_row_num));
                    assert(range@ == sp_range(token.val()));
                    assert forall|k: int| 0 <= k < coordinate_list@.len() implies part_ok(#[trigger] coordinate_list@[k]@, *root_col_num, *offset_col_num, *root_row_num, *offset_row_num) by {
                        assert(strs(coordinate_list@)[k] == coordinate_list@[k]@);
                        assert(sp_parts(sp_range(token.val()))[k] == coordinate_list@[k]@);
                    }
                }
                for coordinate in it2: &coordinate_list
                    invariant
                        strs(coordinate_list@) == sp_parts(range@),
                        forall|k: int| 0 <= k < coordinate_list@.len() ==> part_ok(#[trigger] coordinate_list@[k]@, *root_col_num, *offset_col_num, *root_row_num, *offset_row_num),
                        it2.seq().len() == coordinate_list@.len(),
                        forall|k: int| 0 <= k < it2.seq().len() ==> *it2.seq()[k] == coordinate_list@[k],
                        coordinate_list_new@.len() == it2.index(),
                        forall|k: int| 0 <= k < it2.index() ==> (#[trigger] coordinate_list_new@[k])@ == ins_part(coordinate_list@[k]@, *root_col_num, *offset_col_num, *root_row_num, *offset_row_num),
                {
                    let cell = index_from_coordinate(coordinate);
                    if cell.0.is_some() && cell.1.is_some() {
                        let mut col_num = cell.0.unwrap();
                        let mut row_num = cell.1.unwrap();
                        let is_lock_col = cell.2.unwrap_or(false);
                        let is_lock_row = cell.3.unwrap_or(false);
                        if !is_lock_col {
                            col_num = adjustment_insert_coordinate(
                                &col_num,
                                root_col_num,
                                offset_col_num,
                            );
                        }
                        if !is_lock_row {
                            row_num = adjustment_insert_coordinate(
                                &row_num,
                                root_row_num,
                                offset_row_num,
                            );
                        }
                        let new_corrdinate = coordinate_from_index_with_lock(
                            &col_num,
                            &row_num,
                            &is_lock_col,
                            &is_lock_row,
                        );
                        coordinate_list_new.push(new_corrdinate);
                    } else {
                        coordinate_list_new.push(__outl_to_string(coordinate));
                    }
                }
                let new_value = join_address(sheet_name, &get_join_range(&coordinate_list_new));
                proof {
                    assert(strings(coordinate_list_new@) =~= sp_parts(range@).map_values(|c: Seq<char>| ins_part(c, *root_col_num, *offset_col_num, *root_row_num, *offset_row_num)));
                }
                token.set_value(new_value);
                proof {
                    assert(token.val() == ins_value(old(token_list)@[it.index()].val(), *root_col_num, *offset_col_num, *root_row_num, *offset_row_num));
                }
            }
        }
        proof {
            assert(tok0 == old(token_list)@[it.index()]);
            if !is_ref_token(&tok0) { assert(*token == tok0); }
            else if !sheet_match(tok0.val(), worksheet_name@, self_worksheet_name@, ignore_worksheet) { assert(*token == tok0); }
            else { assert(token.val() == ins_value(tok0.val(), *root_col_num, *offset_col_num, *root_row_num, *offset_row_num)); }
            assert(tok_post(&old(token_list)@[it.index()], &*token, *root_col_num, *offset_col_num, *root_row_num, *offset_row_num, worksheet_name@, self_worksheet_name@, ignore_worksheet));
        }
    }
    __outl_render(token_list)
}


pub fn adjustment_remove_formula_coordinate(
    token_list: &mut [FormulaToken],
    root_col_num: &u32,
    offset_col_num: &u32,
    root_row_num: &u32,
    offset_row_num: &u32,
    worksheet_name: &str,
    self_worksheet_name: &str,
    ignore_worksheet: bool,
) -> String {
    for token in token_list.into_iter() {
        if token.get_token_type() == &FormulaTokenTypes::Operand
            && token.get_token_sub_type() == &FormulaTokenSubTypes::Range
        {
            let (sheet_name, range) = split_address(token.get_value());
            if ignore_worksheet
                || (sheet_name == "" && worksheet_name == self_worksheet_name)
                || (sheet_name == worksheet_name)
            {
                let mut coordinate_list_new: Vec<String> = Vec::new();
                let coordinate_list = get_split_range(range);
                for coordinate in &coordinate_list {
                    let cell = index_from_coordinate(coordinate);
                    if cell.0.is_some() {
                        let mut col_num = cell.0.unwrap();
                        let mut row_num = cell.1.unwrap();
                        let is_lock_col = cell.2.unwrap();
                        let is_lock_row = cell.3.unwrap();
                        if !is_lock_col {
                            col_num = adjustment_remove_coordinate(
                                &col_num,
                                root_col_num,
                                offset_col_num,
                            );
                        }
                        if !is_lock_row {
                            row_num = adjustment_remove_coordinate(
                                &row_num,
                                root_row_num,
                                offset_row_num,
                            );
                        }
                        let new_corrdinate = coordinate_from_index_with_lock(
                            &col_num,
                            &row_num,
                            &is_lock_col,
                            &is_lock_row,
                        );
                        coordinate_list_new.push(new_corrdinate);
                    } else {
                        coordinate_list_new.push(__outl_to_string(coordinate));
                    }
                }
                let new_value = join_address(sheet_name, &get_join_range(&coordinate_list_new));
                token.set_value(new_value);
            }
        }
    }
    __outl_render(token_list)
}

}
fn main() {}
