use vstd::prelude::*;
use std::collections::{BTreeSet, HashMap};
use vstd::std_specs::hash::obeys_key_model;
verus! {

pub struct Coordinate { col: u32, row: u32 }
impl Coordinate {
    pub closed spec fn vcol(&self) -> u32 { self.col }
    pub closed spec fn vrow(&self) -> u32 { self.row }
    pub fn get_col_num(&self) -> (r: &u32) ensures *r == self.vcol() { &self.col }
    pub fn get_row_num(&self) -> (r: &u32) ensures *r == self.vrow() { &self.row }
}
pub struct Cell { coordinate: Coordinate }
impl Cell {
    pub closed spec fn vcoord(&self) -> Coordinate { self.coordinate }
    pub fn get_coordinate(&self) -> (r: &Coordinate) ensures *r == self.vcoord() { &self.coordinate }
}

pub struct Cells {
    map: HashMap<(u32, u32), Box<Cell>>,
    row_column_index: BTreeSet<(u32, u32)>,
    column_row_index: BTreeSet<(u32, u32)>,
}

impl Cells {
    pub closed spec fn vmap(&self) -> Map<(u32,u32), Box<Cell>> { self.map@ }
    pub closed spec fn wf(&self) -> bool {
        &&& forall|r: u32, c: u32| self.map@.contains_key((r, c)) <==> self.row_column_index@.contains((r, c))
        &&& forall|r: u32, c: u32| self.map@.contains_key((r, c)) <==> self.column_row_index@.contains((c, r))
        &&& forall|r: u32, c: u32| self.map@.contains_key((r, c)) ==> self.map@[(r, c)].vcoord().vrow() == r && self.map@[(r, c)].vcoord().vcol() == c
    }

    pub(crate) fn add(&mut self, cell: Cell)
        requires old(self).wf(), obeys_key_model::<(u32,u32)>(),
        ensures final(self).wf(),
            final(self).vmap() == old(self).vmap().insert((cell.vcoord().vrow(), cell.vcoord().vcol()), Box::new(cell)),
    {
        let col_num = *cell.get_coordinate().get_col_num();
        let row_num = *cell.get_coordinate().get_row_num();
        self.map.insert((row_num, col_num), Box::new(cell));
        self.row_column_index.insert((row_num, col_num));
        self.column_row_index.insert((col_num, row_num));
    }

    #[inline]
    pub(crate) fn remove(&mut self, col_num: &u32, row_num: &u32) -> (r: bool)
        requires old(self).wf(), obeys_key_model::<(u32,u32)>(),
        ensures final(self).wf(),
            final(self).vmap() == old(self).vmap().remove((*row_num, *col_num)),
            r == old(self).vmap().contains_key((*row_num, *col_num)),
    {
        let k = (*row_num, *col_num);
        let r = self.map.remove(&k).is_some();
        if r {
            self.row_column_index.remove(&k);
            self.column_row_index.remove(&(k.1, k.0));
        }
        r
    }
}

}
fn main() {}
