use vstd::prelude::*;
verus! {
global size_of usize == 8;

const PACKAGE_ENCRYPTION_CHUNK_SIZE: usize = 4096;
const PACKAGE_OFFSET: usize = 8;

pub uninterp spec fn spec_sha512(data: Seq<u8>) -> Seq<u8>;
pub uninterp spec fn spec_aes(key: Seq<u8>, iv: Seq<u8>, pt: Seq<u8>) -> Seq<u8>;
pub uninterp spec fn spec_le(value: u32, size: nat) -> Seq<u8>;   // LE32 at offset 0, zero padded to size
pub uninterp spec fn spec_iv(salt: Seq<u8>, block_size: nat, block_key: Seq<u8>) -> Seq<u8>;

pub open spec fn flat(bufs: Seq<Seq<u8>>) -> Seq<u8>
    decreases bufs.len()
{ if bufs.len() == 0 { Seq::empty() } else { flat(bufs.drop_last()) + bufs.last() } }

pub open spec fn pad(chunk: Seq<u8>, bs: nat) -> Seq<u8> {
    if bs > 0 && chunk.len() % bs > 0 { chunk + Seq::new((bs - chunk.len() % bs) as nat, |i: int| 0u8) } else { chunk }
}
pub open spec fn nseg(len: nat) -> nat { ((len + 4095) / 4096) as nat }
pub open spec fn seg(input: Seq<u8>, i: nat) -> Seq<u8> {
    input.subrange((4096 * i) as int, if 4096 * (i + 1) <= input.len() { (4096 * (i + 1)) as int } else { input.len() as int })
}
pub open spec fn enc_seg(input: Seq<u8>, i: nat, bs: nat, salt: Seq<u8>, key: Seq<u8>) -> Seq<u8> {
    spec_aes(key, spec_iv(salt, bs, spec_le(i as u32, 4)), pad(seg(input, i), bs))
}
pub open spec fn enc_segs(input: Seq<u8>, n: nat, bs: nat, salt: Seq<u8>, key: Seq<u8>) -> Seq<Seq<u8>> {
    Seq::new(n, |i: int| enc_seg(input, i as nat, bs, salt, key))
}

proof fn lemma_flat2(a: Seq<u8>, b: Seq<u8>)
    ensures flat(seq![a, b]) == a + b
{
    let s2 = seq![a, b];
    assert(s2.drop_last() =~= seq![a]);
    assert(seq![a].drop_last() =~= Seq::<Seq<u8>>::empty());
    assert(flat(seq![a]) =~= a) by { assert(flat(Seq::<Seq<u8>>::empty()) =~= Seq::<u8>::empty()); }
    assert(flat(s2) =~= a + b);
}

proof fn lemma_flat2_all()
    ensures forall|b: Seq<&[u8]>| b.len() == 2 ==> #[trigger] flat(views(b)) == b[0]@ + b[1]@
{
    assert forall|b: Seq<&[u8]>| b.len() == 2 implies #[trigger] flat(views(b)) == b[0]@ + b[1]@ by {
        lemma_flat2(b[0]@, b[1]@);
        assert(views(b) =~= seq![b[0]@, b[1]@]);
    }
}

#[verifier::external_body]
fn buffer_slice(buffer: &[u8], start: usize, end: usize) -> (r: Vec<u8>)
    requires start <= end <= buffer@.len(), ensures r@ == buffer@.subrange(start as int, end as int) { unimplemented!() }
#[verifier::external_body]
fn buffer_alloc(alloc_char: u8, size: usize) -> (r: Vec<u8>)
    ensures r@ == Seq::new(size as nat, |i: int| alloc_char) { unimplemented!() }
pub open spec fn views(b: Seq<&[u8]>) -> Seq<Seq<u8>> { Seq::new(b.len(), |i: int| b[i]@) }
#[verifier::external_body]
fn buffer_concat(buffers: Vec<&[u8]>) -> (r: Vec<u8>)
    ensures r@ == flat(views(buffers@)) { unimplemented!() }
#[verifier::external_body]
fn create_uint32_le_buffer(value: &u32, buffer_size: Option<&usize>) -> (r: Vec<u8>)
    ensures r@ == spec_le(*value, if buffer_size is Some { *buffer_size->0 as nat } else { 4 }) { unimplemented!() }
#[verifier::external_body]
fn create_iv(hash_algorithm: &str, salt_value: &[u8], block_size: &usize, block_key: &[u8]) -> (r: Vec<u8>)
    ensures r@ == spec_iv(salt_value@, *block_size as nat, block_key@) { unimplemented!() }
#[verifier::external_body]
fn crypt(_encrypt: &bool, _cipher_algorithm: &str, _cipher_chaining: &str, key: &[u8], iv: &[u8], input: &[u8]) -> (r: Result<Vec<u8>, String>)
    requires input@.len() <= 4096,
    ensures key@.len() == 32 ==> (r is Ok && r->Ok_0@ == spec_aes(key@, iv@, input@)) { unimplemented!() }
#[verifier::external_body]
fn buffer_read_u_int32_le(buffer: &[u8], _cnt: &usize) -> u32 { unimplemented!() }

#[verifier::external_body]
fn __outl_chunks_as<'a>(output_chunks: &'a Vec<Vec<u8>>) -> (r: Vec<&'a [u8]>)
    ensures views(r@) == Seq::new(output_chunks@.len(), |i: int| output_chunks@[i]@)
{ output_chunks.iter().map(AsRef::as_ref).collect() }

fn crypt_package(
    encrypt: &bool,
    cipher_algorithm: &str,
    cipher_chaining: &str,
    hash_algorithm: &str,
    block_size: &usize,
    salt_value: &[u8],
    key: &[u8],
    input: &[u8],
) -> (output: Vec<u8>)
    requires *encrypt, *block_size == 16, key@.len() == 32, input@.len() < 0x1_0000_0000,
    ensures output@ == spec_le(input@.len() as u32, 8) + flat(enc_segs(input@, nseg(input@.len()), 16, salt_value@, key@)),
{
    let mut output_chunks: Vec<Vec<u8>> = Vec::new();
    let offset = if encrypt == &true { 0 } else { PACKAGE_OFFSET };

    let mut i: usize = 0;
    let mut end = 0;
    while end < input.len()
        invariant
            *encrypt, offset == 0, *block_size == 16, key@.len() == 32, input@.len() < 0x1_0000_0000,
            end <= input.len(),
            end == if 4096 * i <= input@.len() { 4096 * i } else { input@.len() as int },
            (end < input.len()) ==> end == 4096 * i,
            i <= nseg(input@.len()),
            end == input.len() ==> i == nseg(input@.len()),
            output_chunks@.len() == i,
            forall|j: int| 0 <= j < i ==> output_chunks@[j]@ == enc_seg(input@, j as nat, 16, salt_value@, key@),
        decreases input.len() - end,
    {
        let start = end;
        end = start + PACKAGE_ENCRYPTION_CHUNK_SIZE;
        if end > input.len() {
            end = input.len();
        };

        let mut input_chunk = buffer_slice(input, start + offset, end + offset);

        let remainder = input_chunk.len() % block_size;
        let ghost chunk0 = input_chunk@;
        proof { assert(chunk0 == seg(input@, i as nat)); assert(chunk0.len() <= 4096); }
        if remainder > 0 {
            let buffer = buffer_alloc(0, block_size - remainder);
            let ghost bufv = buffer@;
            input_chunk = buffer_concat(vec![&input_chunk, &buffer]);
            proof {
                lemma_flat2_all();
                assert(input_chunk@ =~= chunk0 + bufv);
                assert(input_chunk@ =~= pad(chunk0, 16));
            }
        }
        proof { assert(input_chunk@ =~= pad(chunk0, 16)); assert(input_chunk@.len() <= 4096); }

        let block_key_buffer = create_uint32_le_buffer(&(i as u32), None);
        let iv = create_iv(hash_algorithm, salt_value, block_size, &block_key_buffer);

        let output_chunk = crypt(
            encrypt,
            cipher_algorithm,
            cipher_chaining,
            key,
            &iv,
            &input_chunk,
        )
        .unwrap();
        output_chunks.push(output_chunk);

        i += 1;
    }

    let output_chunks_as: Vec<_> = __outl_chunks_as(&output_chunks);
    proof {
        assert(i == nseg(input@.len()));
        assert(views(output_chunks_as@) =~= enc_segs(input@, nseg(input@.len()), 16, salt_value@, key@));
    }
    let mut output = buffer_concat(output_chunks_as);
    let ghost body = output@;
    proof { lemma_flat2_all(); }

    if *encrypt {
        let input_len = input.len();
        output = buffer_concat(vec![
            &create_uint32_le_buffer(&(input_len as u32), Some(&PACKAGE_OFFSET)),
            &output,
        ]);
    } else {
        let length = buffer_read_u_int32_le(input, &0);
        output = __outl_trunc(&output, length);
    }

    output
}

#[verifier::external_body]
fn __outl_trunc(output: &Vec<u8>, length: u32) -> Vec<u8> { output[0..length as usize].to_vec() }

}
fn main() {}
