use vstd::prelude::*;
verus! {

pub open spec fn ins(n: u32, p: u32, k: u32) -> int { if k != 0 && n >= p { n + k } else { n as int } }
pub open spec fn in_band(n: u32, p: u32, k: u32) -> bool { p != 0 && k != 0 && p <= n && n < p + k }
pub open spec fn rem(n: u32, p: u32, k: u32) -> int { if k != 0 && n >= p { n - k } else { n as int } }
pub open spec fn rem_ok(n: u32, p: u32, k: u32) -> bool { k == 0 || (p >= 1 && !in_band(n, p, k)) }

pub(crate) fn adjustment_remove_coordinate(num: &u32, root_num: &u32, offset_num: &u32) -> (r: u32)
    requires rem_ok(*num, *root_num, *offset_num),
    ensures r == rem(*num, *root_num, *offset_num),
{
    if (num >= root_num && offset_num != &0) {
        num - offset_num
    } else {
        *num
    }
}

pub(crate) fn is_remove_coordinate(num: &u32, root_num: &u32, offset_num: &u32) -> (b: bool)
    requires *root_num + *offset_num <= u32::MAX,
    ensures b == in_band(*num, *root_num, *offset_num),
{
    if root_num != &0 && offset_num != &0 {
        return num >= root_num && num < &(root_num + offset_num);
    }
    false
}

pub struct ColumnReference { num: u32, is_lock: bool }
pub struct RowReference { num: u32, is_lock: bool }
impl ColumnReference {
    pub closed spec fn n(&self) -> u32 { self.num }
    pub closed spec fn l(&self) -> bool { self.is_lock }
    fn adjustment_remove_value(&mut self, root_num: &u32, offset_num: &u32)
        requires rem_ok(old(self).n(), *root_num, *offset_num),
        ensures final(self).n() == rem(old(self).n(), *root_num, *offset_num), final(self).l() == old(self).l(),
    { self.num = adjustment_remove_coordinate(&self.num, root_num, offset_num); }
    fn is_remove_value(&self, root_num: &u32, offset_num: &u32) -> (b: bool)
        requires *root_num + *offset_num <= u32::MAX, ensures b == in_band(self.n(), *root_num, *offset_num)
    { is_remove_coordinate(&self.num, root_num, offset_num) }
}
impl RowReference {
    pub closed spec fn n(&self) -> u32 { self.num }
    pub closed spec fn l(&self) -> bool { self.is_lock }
    fn adjustment_remove_value(&mut self, root_num: &u32, offset_num: &u32)
        requires rem_ok(old(self).n(), *root_num, *offset_num),
        ensures final(self).n() == rem(old(self).n(), *root_num, *offset_num), final(self).l() == old(self).l(),
    { self.num = adjustment_remove_coordinate(&self.num, root_num, offset_num); }
    fn is_remove_value(&self, root_num: &u32, offset_num: &u32) -> (b: bool)
        requires *root_num + *offset_num <= u32::MAX, ensures b == in_band(self.n(), *root_num, *offset_num)
    { is_remove_coordinate(&self.num, root_num, offset_num) }
}

pub struct Range {
    start_col: Option<ColumnReference>,
    start_row: Option<RowReference>,
    end_col: Option<ColumnReference>,
    end_row: Option<RowReference>,
}
impl Range {
    pub closed spec fn sc(&self) -> Option<ColumnReference> { self.start_col }
    pub closed spec fn sr(&self) -> Option<RowReference> { self.start_row }
    pub closed spec fn ec(&self) -> Option<ColumnReference> { self.end_col }
    pub closed spec fn er(&self) -> Option<RowReference> { self.end_row }
    // "lies wholly inside the removed band in every edited dimension" (from the C07 statement)
    pub open spec fn inside_band(&self, rc: u32, oc: u32, rr: u32, orr: u32) -> bool {
        (oc != 0 || orr != 0)
        && (oc != 0 ==> self.sc() is Some && in_band(self.sc()->0.n(), rc, oc) && (self.ec() is Some ==> in_band(self.ec()->0.n(), rc, oc)))
        && (orr != 0 ==> self.sr() is Some && in_band(self.sr()->0.n(), rr, orr) && (self.er() is Some ==> in_band(self.er()->0.n(), rr, orr)))
    }

    fn is_remove_coordinate(
        &self,
        root_col_num: &u32,
        offset_col_num: &u32,
        root_row_num: &u32,
        offset_row_num: &u32,
    ) -> (b: bool)
        requires *root_col_num + *offset_col_num <= u32::MAX, *root_row_num + *offset_row_num <= u32::MAX,
        ensures b == self.inside_band(*root_col_num, *offset_col_num, *root_row_num, *offset_row_num),
    {
        let start_col_result = match &self.start_col {
            Some(v) => v.is_remove_value(root_col_num, offset_col_num),
            None => false,
        };
        let start_row_result = match &self.start_row {
            Some(v) => v.is_remove_value(root_row_num, offset_row_num),
            None => false,
        };
        let end_col_result = match &self.end_col {
            Some(v) => v.is_remove_value(root_col_num, offset_col_num),
            None => false,
        };
        let end_row_result = match &self.end_row {
            Some(v) => v.is_remove_value(root_row_num, offset_row_num),
            None => false,
        };
        start_col_result && start_row_result && end_col_result && end_row_result
    }
}

}
fn main() {}
