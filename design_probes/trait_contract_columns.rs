#![feature(allocator_api)]
use vstd::prelude::*;
use vstd::std_specs::iter::IteratorSpec;
verus! {

pub open spec fn ins(n: u32, p: u32, k: u32) -> int { if k != 0 && n >= p { n + k } else { n as int } }

pub(crate) fn adjustment_insert_coordinate(num: &u32, root_num: &u32, offset_num: &u32) -> (r: u32)
    requires ins(*num, *root_num, *offset_num) <= u32::MAX,
    ensures r == ins(*num, *root_num, *offset_num),
{
    if (num >= root_num && offset_num != &0) { num + offset_num } else { *num }
}

pub(crate) trait AdjustmentValue {
    spec fn ins_pre(&self, root: u32, off: u32) -> bool;
    spec fn ins_post(&self, fin: &Self, root: u32, off: u32) -> bool;

    fn adjustment_insert_value(&mut self, root_num: &u32, offset_num: &u32)
        requires old(self).ins_pre(*root_num, *offset_num),
        ensures old(self).ins_post(final(self), *root_num, *offset_num);
}

pub struct Column { col_num: u32, width: u64 }
impl AdjustmentValue for Column {
    closed spec fn ins_pre(&self, root: u32, off: u32) -> bool { ins(self.col_num, root, off) <= u32::MAX }
    closed spec fn ins_post(&self, fin: &Self, root: u32, off: u32) -> bool { fin.col_num == ins(self.col_num, root, off) && fin.width == self.width }
    #[inline]
    fn adjustment_insert_value(&mut self, root_num: &u32, offset_num: &u32) {
        self.col_num = adjustment_insert_coordinate(&self.col_num, root_num, offset_num);
    }
}

pub type ThinVec<T> = Vec<T>;
pub(crate) struct Columns { column: ThinVec<Column> }

pub assume_specification<'a, T, A: core::alloc::Allocator>[<&'a mut Vec<T, A> as core::iter::IntoIterator>::into_iter](v: &'a mut Vec<T, A>) -> (it: <&'a mut Vec<T, A> as core::iter::IntoIterator>::IntoIter)
  ensures
    it.remaining().len() == old(v).len(),
    forall|i: int| 0 <= i < old(v).len() ==> *it.remaining()[i] == old(v)[i],
    forall|i: int| 0 <= i < old(v).len() ==> *final(it.remaining()[i]) == final(v)[i],
    final(v).len() == old(v).len(),
    it.obeys_prophetic_iter_laws(), it.decrease() is Some, it.will_return_none(),
;

impl AdjustmentValue for Columns {
    closed spec fn ins_pre(&self, root: u32, off: u32) -> bool { forall|i: int| 0 <= i < self.column.len() ==> (#[trigger] self.column[i]).ins_pre(root, off) }
    closed spec fn ins_post(&self, fin: &Self, root: u32, off: u32) -> bool {
        fin.column.len() == self.column.len() && forall|i: int| 0 <= i < self.column.len() ==> (#[trigger] self.column[i]).ins_post(&fin.column[i], root, off)
    }
    fn adjustment_insert_value(&mut self, root_num: &u32, offset_num: &u32) {
        for column_dimension in it: &mut self.column
            invariant
                it.seq().len() == old(self).column.len(),
                forall|i: int| 0 <= i < old(self).column.len() ==> (#[trigger] old(self).column[i]).ins_pre(*root_num, *offset_num),
                forall|j: int| 0 <= j < it.seq().len() ==> *it.seq()[j] == old(self).column[j],
                forall|j: int| 0 <= j < it.index() ==> (#[trigger] old(self).column[j]).ins_post(&*final(it.seq()[j]), *root_num, *offset_num),
        {
            proof { assert(old(self).column[it.index()].ins_pre(*root_num, *offset_num)); }
            column_dimension.adjustment_insert_value(root_num, offset_num);
        }
    }
}

}
fn main() {}
