use vstd::prelude::*;
verus! {

pub uninterp spec fn hash_of<T>(x: T) -> u64;

// the step contract of SharedStringTable::set_cell, as a relation on abstract states
pub open spec fn step_ok<T>(pre: Seq<T>, h: u64, post: Seq<T>, n: nat) -> bool {
    pre.is_prefix_of(post) && n < post.len() && hash_of(post[n as int]) == h
}

// a history: states[0..=m], requests hs[0..m], answers ns[0..m]; any saver may have issued any step
pub open spec fn history_ok<T>(states: Seq<Seq<T>>, hs: Seq<u64>, ns: Seq<nat>) -> bool {
    states.len() == hs.len() + 1 && ns.len() == hs.len()
    && forall|j: int| 0 <= j < hs.len() ==> step_ok(#[trigger] states[j], hs[j], states[j + 1], ns[j])
}

proof fn lemma_prefix_chain<T>(states: Seq<Seq<T>>, hs: Seq<u64>, ns: Seq<nat>, j: int, k: int)
    requires history_ok(states, hs, ns), 0 <= j <= k < states.len(),
    ensures states[j].is_prefix_of(states[k]),
    decreases k - j
{
    if j < k {
        lemma_prefix_chain(states, hs, ns, j, k - 1);
        assert(step_ok(states[k - 1], hs[k - 1], states[k], ns[k - 1]));
        let a = states[j]; let b = states[k - 1]; let c = states[k];
        assert(a.is_prefix_of(c)) by {
            assert(a.len() <= b.len() <= c.len());
            assert forall|i: int| 0 <= i < a.len() implies a[i] == c[i] by { assert(a[i] == b[i]); assert(b[i] == c[i]); }
        }
    }
}

// every index ever handed out still designates an entry with the requested content hash
// in every later state, in particular in the state any saver dumps
proof fn lemma_interleaving<T>(states: Seq<Seq<T>>, hs: Seq<u64>, ns: Seq<nat>, j: int, k: int)
    requires history_ok(states, hs, ns), 0 <= j < hs.len(), j + 1 <= k < states.len(),
    ensures ns[j] < states[k].len(), hash_of(states[k][ns[j] as int]) == hs[j],
{
    lemma_prefix_chain(states, hs, ns, j + 1, k);
    assert(step_ok(states[j], hs[j], states[j + 1], ns[j]));
    assert(states[j + 1][ns[j] as int] == states[k][ns[j] as int]);
}

}
fn main() {}
