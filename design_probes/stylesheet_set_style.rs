#![feature(allocator_api)]
use vstd::prelude::*;
use vstd::std_specs::iter::IteratorSpec;
use vstd::std_specs::cmp::*;
verus! {

pub type ThinVec<T> = Vec<T>;

#[verifier::external_body]
pub struct Style { _p: u8 }
#[verifier::external_body]
pub struct CellFormat { _p: u8 }
#[verifier::external_body]
pub struct NumberingFormats { _p: u8 }
#[verifier::external_body]
pub struct Fonts { _p: u8 }
#[verifier::external_body]
pub struct CellFormats { _p: u8 }

pub uninterp spec fn style_eq(a: &Style, b: &Style) -> bool;   // the type's PartialEq, assumed an equivalence
pub uninterp spec fn style_default() -> Style;
pub uninterp spec fn cfs_len(c: &CellFormats) -> nat;

impl PartialEqSpecImpl for Style {
    open spec fn obeys_eq_spec() -> bool { true }
    open spec fn eq_spec(&self, other: &Style) -> bool { style_eq(self, other) }
}
impl PartialEq for Style {
    #[verifier::external_body]
    fn eq(&self, other: &Self) -> (b: bool) { unimplemented!() }
}
impl Clone for Style {
    #[verifier::external_body]
    fn clone(&self) -> (r: Self) ensures style_eq(&r, self), style_eq(self, &r) { unimplemented!() }
}
impl Style {
    #[verifier::external_body]
    pub fn default() -> (r: Self) ensures r == style_default() { unimplemented!() }
}
impl CellFormat {
    #[verifier::external_body]
    pub fn default() -> (r: Self) { unimplemented!() }
}
impl CellFormats {
    #[verifier::external_body]
    pub(crate) fn set_cell_format(&mut self, value: CellFormat) -> (r: &mut Self)
        ensures cfs_len(r) == cfs_len(old(self)) + 1, *final(r) == *final(self) { unimplemented!() }
}

pub(crate) struct Stylesheet {
    cell_formats: CellFormats,
    maked_style_list: ThinVec<Style>,
}

impl Stylesheet {
    pub closed spec fn styles(&self) -> Seq<Style> { self.maked_style_list@ }
    pub closed spec fn nxf(&self) -> nat { cfs_len(&self.cell_formats) }

    pub(crate) fn set_style(&mut self, style: &Style) -> (index: u32)
        requires old(self).styles().len() < u32::MAX, old(self).nxf() == old(self).styles().len(),
        ensures
            old(self).styles().is_prefix_of(final(self).styles()),
            final(self).nxf() == final(self).styles().len(),
            style_eq(style, &style_default()) ==> index == 0 && final(self).styles() == old(self).styles(),
            !style_eq(style, &style_default()) ==> index < final(self).styles().len() && style_eq(style, &final(self).styles()[index as int]),
            // no growth when already present
            (exists|j: int| 0 <= j < old(self).styles().len() && style_eq(style, &old(self).styles()[j])) ==> final(self).styles() == old(self).styles(),
            // first match
            !style_eq(style, &style_default()) ==> forall|j: int| 0 <= j < index && j < old(self).styles().len() ==> !style_eq(style, &old(self).styles()[j]),
    {
        let mut index = 0;
        let def_style = Style::default();
        if style == &def_style {
            return index;
        }
        for maked_style in it: &self.maked_style_list
            invariant
                index == it.index(),
                it.seq().len() == self.maked_style_list@.len(),
                self.maked_style_list@.len() < u32::MAX,
                *self == *old(self),
                !style_eq(style, &style_default()),
                old(self).nxf() == old(self).styles().len(),
                forall|j: int| 0 <= j < it.seq().len() ==> *it.seq()[j] == self.maked_style_list@[j],
                forall|j: int| 0 <= j < it.index() ==> !style_eq(style, &self.maked_style_list@[j]),
        {
            if style == maked_style {
                return index;
            }
            index += 1;
        }
        let mut cell_format = CellFormat::default();

        self.maked_style_list.push(style.clone());
        self.cell_formats.set_cell_format(cell_format);
        index
    }
}

}
fn main() {}
