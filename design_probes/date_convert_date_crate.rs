use vstd::prelude::*;
verus! {

pub open spec fn is_leap(y: int) -> bool { (y % 4 == 0 && y % 100 != 0) || y % 400 == 0 }
pub open spec fn days_in_year(y: int) -> int { if is_leap(y) { 366 } else { 365 } }
// days from 0000-03-01 style: count days of whole years [1900, y)
pub open spec fn days_before_year(y: int) -> int
  decreases y - 1900
{ if y <= 1900 { 0 } else { days_before_year(y - 1) + days_in_year(y - 1) } }

pub open spec fn cum_month(m: int, leap: bool) -> int {
  let base: int = if m == 1 {0} else if m == 2 {31} else if m == 3 {59} else if m == 4 {90} else if m == 5 {120} else if m == 6 {151}
     else if m == 7 {181} else if m == 8 {212} else if m == 9 {243} else if m == 10 {273} else if m == 11 {304} else {334};
  if leap && m > 2 { base + 1 } else { base }
}
// true day count from 1899-12-31 (serial 1 = 1900-01-01), proleptic Gregorian
pub open spec fn true_days(y: int, m: int, d: int) -> int {
  days_before_year(y) + cum_month(m, is_leap(y)) + d
}
// Excel 1900 serial: +1 for dates from 1900-03-01 (phantom leap day)
pub open spec fn excel_serial(y: int, m: int, d: int) -> int {
  true_days(y, m, d) + (if y > 1900 || m > 2 { 1int } else { 0int })
}

pub open spec fn julian_formula(year: int, month: int, day: int) -> int {
  let leapadj: int = if year == 1900 && month <= 2 { 0 } else { 1 };
  let (m2, y2) = if month > 2 { (month - 3, year) } else { (month + 9, year - 1) };
  let century = y2 / 100;
  let decade = y2 % 100;
  (146097 * century) / 4 + (1461 * decade) / 4 + (153 * m2 + 2) / 5 + day + 1721119 - 2415020 + leapadj
}

// closed form for days_before_year
pub open spec fn leaps_upto(y: int) -> int { y / 4 - y / 100 + y / 400 }
proof fn lemma_days_before_year(y: int)
  requires 1900 <= y <= 10000
  ensures days_before_year(y) == 365 * (y - 1900) + leaps_upto(y - 1) - leaps_upto(1899)
  decreases y - 1900
{
  if y > 1900 {
    lemma_days_before_year(y - 1);
  }
}

proof fn lemma_julian(y: int, m: int, d: int)
  requires 1900 <= y <= 9999, 1 <= m <= 12, 1 <= d <= 31
  ensures julian_formula(y, m, d) == excel_serial(y, m, d)
{
  lemma_days_before_year(y);
  let y2 = if m > 2 { y } else { y - 1 };
  let c = y2 / 100;
  let dec = y2 % 100;
  assert(y2 == 100 * c + dec && 0 <= dec < 100 && 18 <= c <= 99);
  assert((146097 * c) / 4 == 36524 * c + c / 4);
  assert((1461 * dec) / 4 == 365 * dec + dec / 4);
  assert(y2 / 4 == 25 * c + dec / 4);
  assert(y2 / 100 == c);
  assert(y2 / 400 == c / 4);
  assert(leaps_upto(y2) == 25 * c + dec / 4 - c + c / 4);
  assert(leaps_upto(1899) == 460);
  if m > 2 {
     assert(is_leap(y) <==> (leaps_upto(y) - leaps_upto(y - 1) == 1));
     assert(leaps_upto(y) - leaps_upto(y - 1) == 0 || leaps_upto(y) - leaps_upto(y - 1) == 1);
  }
}


pub uninterp spec fn f64_of_i32(x: i32) -> f64;
pub uninterp spec fn f64_add(a: f64, b: f64) -> f64;
pub uninterp spec fn f64_div(a: f64, b: f64) -> f64;

#[verifier::external_body]
fn __outl_century(year: i32) -> (r: i32)
    requires 1000 <= year <= 9999, ensures r == year / 100
{ (year.to_string()[0..2]).parse::<i32>().unwrap() }
#[verifier::external_body]
fn __outl_decade(year: i32) -> (r: i32)
    requires 1000 <= year <= 9999, ensures r == year % 100
{ (year.to_string()[2..4]).parse::<i32>().unwrap() }
#[verifier::external_body]
fn __outl_excel_time(hours: i32, minutes: i32, seconds: i32) -> (r: f64)
    ensures r == f64_div(f64_of_i32((hours * 3600 + minutes * 60 + seconds) as i32), f64_of_i32(86400))
{ ((hours * 3600) + (minutes * 60) + seconds) as f64 / 86400 as f64 }
#[verifier::external_body]
fn __outl_ret(excel_date: i32, excel_time: f64) -> (r: f64)
    ensures r == f64_add(f64_of_i32(excel_date), excel_time)
{ (excel_date as f64 + excel_time) as f64 }

fn convert_date_crate(
    year: i32,
    month: i32,
    day: i32,
    hours: i32,
    minutes: i32,
    seconds: i32,
    is_calendar_windows_1900: bool,
) -> (r: f64)
    requires 1900 <= year <= 9999, 1 <= month <= 12, 1 <= day <= 31, 0 <= hours < 24, 0 <= minutes < 60, 0 <= seconds < 60, is_calendar_windows_1900,
    ensures r == f64_add(f64_of_i32(excel_serial(year as int, month as int, day as int) as i32),
                         f64_div(f64_of_i32((hours * 3600 + minutes * 60 + seconds) as i32), f64_of_i32(86400))),
{
    let mut year = year;
    let mut month = month;
    let mut myexcel_base_date = 0;
    let mut excel1900is_leap_year = 0;

    if is_calendar_windows_1900 {
        excel1900is_leap_year = 1;
        if &year == &1900 && &month <= &2 {
            excel1900is_leap_year = 0;
        }
        myexcel_base_date = 2415020;
    } else {
        myexcel_base_date = 2416481;
    }

    // Julian base date Adjustment
    if month > 2 {
        month -= 3;
    } else {
        month += 9;
        year -= 1;
    }

    let century = __outl_century(year);
    let decade = __outl_decade(year);

    let excel_date = ((146097 * century) / 4) as i32
        + ((1461 * decade) / 4) as i32
        + ((153 * month + 2) / 5) as i32
        + day
        + 1721119
        - myexcel_base_date
        + excel1900is_leap_year;
    let excel_time = __outl_excel_time(hours, minutes, seconds);
    proof { lemma_julian(old_year(year, month) , old_month(month), day as int); }
    return __outl_ret(excel_date, excel_time);
}
pub open spec fn old_year(y2: i32, m2: i32) -> int { if m2 >= 10 { y2 + 1 } else { y2 as int } }
pub open spec fn old_month(m2: i32) -> int { if m2 >= 10 { m2 - 9 } else { m2 + 3 } }

}
fn main() {}
