use vstd::prelude::*;
verus! {

pub uninterp spec fn spec_sha512(data: Seq<u8>) -> Seq<u8>;
pub uninterp spec fn spec_utf16le(s: Seq<char>) -> Seq<u8>;
pub open spec fn le32(i: u32) -> Seq<u8> {
    seq![(i & 0xff) as u8, ((i >> 8) & 0xff) as u8, ((i >> 16) & 0xff) as u8, ((i >> 24) & 0xff) as u8]
}
pub open spec fn concat2(a: Seq<u8>, b: Seq<u8>) -> Seq<u8> { a + b }

// ECMA-376 Part 1, 18.2.29 / ISO password hash: H0 = H(salt || pw); Hi = H(H(i-1) || LE32(i-1))
pub open spec fn iso_hash(salt: Seq<u8>, pw: Seq<u8>, n: nat) -> Seq<u8>
    decreases n
{
    if n == 0 { spec_sha512(salt + pw) } else { spec_sha512(iso_hash(salt, pw, (n - 1) as nat) + le32((n - 1) as u32)) }
}

pub open spec fn flat(bufs: Seq<&[u8]>) -> Seq<u8>
    decreases bufs.len()
{
    if bufs.len() == 0 { Seq::empty() } else { flat(bufs.drop_last()) + bufs.last()@ }
}
proof fn lemma_flat2_all()
    ensures forall|b: Seq<&[u8]>| b.len() == 2 ==> #[trigger] flat(b) == b[0]@ + b[1]@
{
    assert forall|b: Seq<&[u8]>| b.len() == 2 implies #[trigger] flat(b) == b[0]@ + b[1]@ by {
        assert(b.drop_last().len() == 1);
        assert(b.drop_last().drop_last().len() == 0);
        assert(flat(b.drop_last().drop_last()) =~= Seq::<u8>::empty());
        assert(flat(b.drop_last()) =~= b[0]@);
        assert(flat(b) =~= b[0]@ + b[1]@);
    }
}

#[verifier::external_body]
fn hash(algorithm: &str, buffers: Vec<&[u8]>) -> (r: Result<Vec<u8>, String>)
    ensures (algorithm@ == "SHA512"@ || algorithm@ == "SHA-512"@) ==> (r is Ok && r->Ok_0@ == spec_sha512(flat(buffers@))),
{
    unimplemented!()
}

#[verifier::external_body]
fn create_uint32_le_buffer(value: &u32, buffer_size: Option<&usize>) -> (r: Vec<u8>)
    ensures buffer_size is None ==> r@ == le32(*value),
{ unimplemented!() }

#[verifier::external_body]
fn __outl_le_bytes(a: u16) -> (d: [u8; 2])
    ensures d@ == seq![(a & 0xff) as u8, ((a >> 8) & 0xff) as u8]
{ a.to_le_bytes() }

// outlined statement (verbatim text kept in the external body)
pub uninterp spec fn spec_utf16(s: Seq<char>) -> Seq<u16>;
pub open spec fn le16s(v: Seq<u16>) -> Seq<u8>
    decreases v.len()
{ if v.len() == 0 { Seq::empty() } else { le16s(v.drop_last()) + seq![(v.last() & 0xff) as u8, ((v.last() >> 8) & 0xff) as u8] } }
#[verifier::external_body]
fn __outl_pw_utf16(password: &str) -> (v: Vec<u16>)
    ensures v@ == spec_utf16(password@)
{ password.encode_utf16().collect() }

fn convert_password_to_hash(
    password: &str,
    hash_algorithm: &str,
    salt_value: &[u8],
    spin_count: &usize,
) -> (key: Vec<u8>)
    requires hash_algorithm@ == "SHA-512"@, *spin_count <= u32::MAX,
    ensures key@ == iso_hash(salt_value@, le16s(spec_utf16(password@)), *spin_count as nat),
{
    // Password must be in unicode buffer
    let mut password_buffer: Vec<u8> = Vec::new();
    let v: Vec<u16> = __outl_pw_utf16(password);
    let ghost v0 = v@;
    for a in it: v
        invariant
            it.seq() == v0,
            password_buffer@ == le16s(v0.take(it.index() as int)),
    {
        proof {
            assert(v0.take(it.index() + 1).drop_last() =~= v0.take(it.index() as int));
            assert(v0.take(it.index() + 1).last() == a);
        }
        let d = __outl_le_bytes(a);
        password_buffer.push(d[0]);
        password_buffer.push(d[1]);
    }

    proof { assert(v0.take(v0.len() as int) =~= v0); lemma_flat2_all(); }
    // Generate the initial hash
    let mut key = hash(hash_algorithm, vec![salt_value, &password_buffer]).unwrap();

    // Now regenerate until spin count
    for i in it2: 0..*spin_count
        invariant
            hash_algorithm@ == "SHA-512"@, *spin_count <= u32::MAX,
            key@ == iso_hash(salt_value@, le16s(spec_utf16(password@)), i as nat),
    {
        proof { lemma_flat2_all(); }
        let iterator = create_uint32_le_buffer(&(i as u32), None);
        key = hash(hash_algorithm, vec![&key, &iterator]).unwrap();
    }

    key
}

}
fn main() {}
