#![feature(allocator_api)]
use vstd::prelude::*;
use vstd::std_specs::iter::IteratorSpec;
verus! {

pub assume_specification<'a, T, A: core::alloc::Allocator>[<&'a mut Vec<T, A> as core::iter::IntoIterator>::into_iter](v: &'a mut Vec<T, A>) -> (it: <&'a mut Vec<T, A> as core::iter::IntoIterator>::IntoIter)
  ensures
    it.remaining().len() == old(v).len(),
    forall|i: int| 0 <= i < old(v).len() ==> *it.remaining()[i] == old(v)[i],
    forall|i: int| 0 <= i < old(v).len() ==> *final(it.remaining()[i]) == final(v)[i],
    final(v).len() == old(v).len(),
    it.obeys_prophetic_iter_laws(), it.decrease() is Some, it.will_return_none(),
;

pub type ThinVec<T> = Vec<T>;
pub struct Range { a: u32 }
impl Range {
    pub closed spec fn va(&self) -> u32 { self.a }
    fn adj(&mut self, off: &u32)
        requires old(self).va() + *off <= u32::MAX
        ensures final(self).va() == old(self).va() + *off
    { self.a = self.a + *off; }
}
pub struct MergeCells { range: ThinVec<Range> }
impl MergeCells {
    pub closed spec fn v(&self) -> Seq<Range> { self.range@ }
    #[inline]
    pub(crate) fn get_range_collection_mut(&mut self) -> (r: &mut ThinVec<Range>)
        ensures r@ == old(self).v(), final(r)@ == final(self).v(),
    {
        &mut self.range
    }
}
#[verifier::external_body]
pub struct Opaque { _p: u8 }
pub struct Worksheet { title: Box<str>, merge_cells: MergeCells, other: Opaque, n: u32 }
impl Worksheet {
    pub closed spec fn mc(&self) -> Seq<Range> { self.merge_cells.v() }
    pub closed spec fn vn(&self) -> u32 { self.n }
    #[inline]
    pub fn get_merge_cells_mut(&mut self) -> (r: &mut ThinVec<Range>)
        ensures r@ == old(self).mc(), final(r)@ == final(self).mc(), final(self).vn() == old(self).vn(),
    {
        self.merge_cells.get_range_collection_mut()
    }

    fn adjust(&mut self, off: &u32)
        requires forall|i: int| 0 <= i < old(self).mc().len() ==> (#[trigger] old(self).mc()[i]).va() + *off <= u32::MAX,
        ensures final(self).mc().len() == old(self).mc().len(),
            forall|i: int| 0 <= i < old(self).mc().len() ==> (#[trigger] final(self).mc()[i]).va() == old(self).mc()[i].va() + *off,
            final(self).vn() == old(self).vn(),
    {
        for merge_cell in it: self.get_merge_cells_mut()
            invariant
                it.seq().len() == old(self).mc().len(),
                forall|i: int| 0 <= i < old(self).mc().len() ==> (#[trigger] old(self).mc()[i]).va() + *off <= u32::MAX,
                forall|j: int| 0 <= j < it.seq().len() ==> *it.seq()[j] == old(self).mc()[j],
                forall|j: int| 0 <= j < it.index() ==> (*final(it.seq()[j])).va() == (#[trigger] old(self).mc()[j]).va() + *off,
        {
            proof { assert(old(self).mc()[it.index()].va() + *off <= u32::MAX); }
            merge_cell.adj(off);
        }
    }
}

}
fn main() {}
