use vstd::prelude::*;
use std::path::Path;
verus! {
exec const BLOCK_KEYS_DATA_INTEGRITY_HMAC_KEY: &'static [u8]
    ensures BLOCK_KEYS_DATA_INTEGRITY_HMAC_KEY@ == seq![0x5fu8, 0xb2u8, 0xadu8, 0x01u8, 0x0cu8, 0xb9u8, 0xe1u8, 0xf6u8]
{ let a: &'static [u8; 8] = &[0x5f, 0xb2, 0xad, 0x01, 0x0c, 0xb9, 0xe1, 0xf6]; a }
exec const BLOCK_KEYS_DATA_INTEGRITY_HMAC_VALUE: &'static [u8]
    ensures BLOCK_KEYS_DATA_INTEGRITY_HMAC_VALUE@ == seq![0xa0u8, 0x67u8, 0x7fu8, 0x02u8, 0xb2u8, 0x2cu8, 0x84u8, 0x33u8]
{ let a: &'static [u8; 8] = &[0xa0, 0x67, 0x7f, 0x02, 0xb2, 0x2c, 0x84, 0x33]; a }
exec const BLOCK_KEYS_KEY: &'static [u8]
    ensures BLOCK_KEYS_KEY@ == seq![0x14u8, 0x6eu8, 0x0bu8, 0xe7u8, 0xabu8, 0xacu8, 0xd0u8, 0xd6u8]
{ let a: &'static [u8; 8] = &[0x14, 0x6e, 0x0b, 0xe7, 0xab, 0xac, 0xd0, 0xd6]; a }
exec const BLOCK_VERIFIER_HASH_INPUT: &'static [u8]
    ensures BLOCK_VERIFIER_HASH_INPUT@ == seq![0xfeu8, 0xa7u8, 0xd2u8, 0x76u8, 0x3bu8, 0x4bu8, 0x9eu8, 0x79u8]
{ let a: &'static [u8; 8] = &[0xfe, 0xa7, 0xd2, 0x76, 0x3b, 0x4b, 0x9e, 0x79]; a }
exec const BLOCK_VERIFIER_HASH_VALUE: &'static [u8]
    ensures BLOCK_VERIFIER_HASH_VALUE@ == seq![0xd7u8, 0xaau8, 0x0fu8, 0x6du8, 0x30u8, 0x61u8, 0x34u8, 0x4eu8]
{ let a: &'static [u8; 8] = &[0xd7, 0xaa, 0x0f, 0x6d, 0x30, 0x61, 0x34, 0x4e]; a }

pub assume_specification<T: Clone>[<[T]>::to_vec](s: &[T]) -> (r: Vec<T>) ensures r@ == s@;

#[verifier::external_body] fn gen_random_16() -> (r: Vec<u8>) ensures r@.len() == 16 { unimplemented!() }
#[verifier::external_body] fn gen_random_32() -> (r: Vec<u8>) ensures r@.len() == 32 { unimplemented!() }
#[verifier::external_body] fn gen_random_64() -> (r: Vec<u8>) ensures r@.len() == 64 { unimplemented!() }
#[verifier::external_body] fn crypt_package(encrypt: &bool, cipher_algorithm: &str, cipher_chaining: &str, hash_algorithm: &str, block_size: &usize, salt_value: &[u8], key: &[u8], input: &[u8]) -> Vec<u8> { unimplemented!() }
#[verifier::external_body] fn create_iv(hash_algorithm: &str, salt_value: &[u8], block_size: &usize, block_key: &[u8]) -> Vec<u8> { unimplemented!() }
#[verifier::external_body] fn crypt(_encrypt: &bool, _cipher_algorithm: &str, _cipher_chaining: &str, key: &[u8], iv: &[u8], input: &[u8]) -> (r: Result<Vec<u8>, String>) ensures r is Ok { unimplemented!() }
#[verifier::external_body] fn hmac(algorithm: &str, key: &[u8], buffers: Vec<&[u8]>) -> (r: Result<Vec<u8>, String>) ensures r is Ok { unimplemented!() }
#[verifier::external_body] fn hash(algorithm: &str, buffers: Vec<&[u8]>) -> (r: Result<Vec<u8>, String>) ensures r is Ok { unimplemented!() }
#[verifier::external_body] fn convert_password_to_key(password: &str, hash_algorithm: &str, salt_value: &[u8], spin_count: &usize, key_bits: &usize, block_key: &[u8]) -> Vec<u8> { unimplemented!() }
#[verifier::external_body] fn build_encryption_info(package_salt_value: &[u8], package_block_size: &usize, package_key_bits: &usize, package_hash_size: &usize, package_cipher_algorithm: &str, package_cipher_chaining: &str, package_hash_algorithm: &str, data_integrity_encrypted_hmac_key: &[u8], data_integrity_encrypted_hmac_value: &[u8], key_spin_count: &usize, key_salt_value: &[u8], key_block_size: &usize, key_key_bits: &usize, key_hash_size: &usize, key_cipher_algorithm: &str, key_cipher_chaining: &str, key_hash_algorithm: &str, key_encrypted_verifier_hash_input: &[u8], key_encrypted_verifier_hash_value: &[u8], key_encrypted_key_value: &[u8]) -> Vec<u8> { unimplemented!() }

} // verus!
pub mod cfb {
    use vstd::prelude::*;
    verus! {
    #[verifier::external_body] pub struct CompoundFile { _p: u8 }
    #[verifier::external_body] pub struct Stream { _p: u8 }
    #[verifier::external_body] pub struct Error { _p: u8 }
    } // verus!
    impl std::fmt::Debug for Error { fn fmt(&self, f: &mut std::fmt::Formatter<'_>) -> std::fmt::Result { Ok(()) } }
    verus! {
    #[verifier::external_body] pub fn create<P>(path: &P) -> (r: Result<CompoundFile, Error>) { unimplemented!() }
    impl CompoundFile {
        #[verifier::external_body] pub fn create_stream(&mut self, name: &str) -> (r: Result<Stream, Error>) { unimplemented!() }
    }
    impl Stream {
        #[verifier::external_body] pub fn write_all(&mut self, buf: &[u8]) -> (r: Result<(), Error>) { unimplemented!() }
    }
    } // verus!
}
verus! {

pub fn encrypt<P: AsRef<Path>>(filepath: &P, data: &[u8], password: &str) {
    // package params
    let package_key = gen_random_32();
    let package_cipher_algorithm = "AES";
    let package_cipher_chaining = "ChainingModeCBC";
    let package_salt_value = gen_random_16();
    let package_hash_algorithm = "SHA512";
    let package_hash_size = 64;
    let package_block_size = 16;
    let package_key_bits = package_key.len() * 8;

    // key params
    let key_cipher_algorithm = "AES";
    let key_cipher_chaining = "ChainingModeCBC";
    let key_salt_value = gen_random_16();
    let key_hash_algorithm = "SHA512";
    let key_hash_size = 64;
    let key_block_size = 16;
    let key_spin_count = 100000;
    let key_key_bits = 256;

    // encrypted_package
    let encrypted_package = crypt_package(
        &true,
        package_cipher_algorithm,
        package_cipher_chaining,
        package_hash_algorithm,
        &package_block_size,
        &package_salt_value,
        &package_key,
        data,
    );

    // hmac key
    let hmac_key = gen_random_64();
    let hmac_key_iv = create_iv(
        package_hash_algorithm,
        &package_salt_value,
        &package_block_size,
        &BLOCK_KEYS_DATA_INTEGRITY_HMAC_KEY.to_vec(),
    );
    let encrypted_hmac_key = crypt(
        &true,
        package_cipher_algorithm,
        package_cipher_chaining,
        &package_key,
        &hmac_key_iv,
        &hmac_key,
    )
    .unwrap();

    // hmac value
    let hmac_value = hmac(package_hash_algorithm, &hmac_key, vec![&encrypted_package]).unwrap();
    let hmac_value_iv = create_iv(
        package_hash_algorithm,
        &package_salt_value,
        &package_block_size,
        &BLOCK_KEYS_DATA_INTEGRITY_HMAC_VALUE.to_vec(),
    );
    let encrypted_hmac_value = crypt(
        &true,
        package_cipher_algorithm,
        package_cipher_chaining,
        &package_key,
        &hmac_value_iv,
        &hmac_value,
    )
    .unwrap();

    // key
    let key = convert_password_to_key(
        password,
        key_hash_algorithm,
        &key_salt_value,
        &key_spin_count,
        &key_key_bits,
        &BLOCK_KEYS_KEY.to_vec(),
    );
    let encrypted_key_value = crypt(
        &true,
        key_cipher_algorithm,
        key_cipher_chaining,
        &key,
        &key_salt_value,
        &package_key,
    )
    .unwrap();

    // verifier_hash_input
    let verifier_hash_input = gen_random_16();
    let verifier_hash_input_key = convert_password_to_key(
        password,
        key_hash_algorithm,
        &key_salt_value,
        &key_spin_count,
        &key_key_bits,
        &BLOCK_VERIFIER_HASH_INPUT.to_vec(),
    );
    let encrypted_verifier_hash_input = crypt(
        &true,
        key_cipher_algorithm,
        key_cipher_chaining,
        &verifier_hash_input_key,
        &key_salt_value,
        &verifier_hash_input,
    )
    .unwrap();

    // verifier_hash_value
    let verifier_hash_value = hash(key_hash_algorithm, vec![&verifier_hash_input]).unwrap();
    let verifier_hash_value_key = convert_password_to_key(
        password,
        key_hash_algorithm,
        &key_salt_value,
        &key_spin_count,
        &key_key_bits,
        &BLOCK_VERIFIER_HASH_VALUE.to_vec(),
    );
    let encrypted_verifier_hash_value = crypt(
        &true,
        key_cipher_algorithm,
        key_cipher_chaining,
        &verifier_hash_value_key,
        &key_salt_value,
        &verifier_hash_value,
    )
    .unwrap();

    // XML
    let encryption_info_buffer = build_encryption_info(
        &package_salt_value,
        &package_block_size,
        &package_key_bits,
        &package_hash_size,
        package_cipher_algorithm,
        package_cipher_chaining,
        package_hash_algorithm,
        &encrypted_hmac_key,
        &encrypted_hmac_value,
        &key_spin_count,
        &key_salt_value,
        &key_block_size,
        &key_key_bits,
        &key_hash_size,
        key_cipher_algorithm,
        key_cipher_chaining,
        key_hash_algorithm,
        &encrypted_verifier_hash_input,
        &encrypted_verifier_hash_value,
        &encrypted_key_value,
    );

    let mut comp = cfb::create(filepath).unwrap();
    {
        let mut stream_info = comp.create_stream("EncryptionInfo").unwrap();
        stream_info.write_all(&encryption_info_buffer).unwrap();
    }
    {
        let mut stream_package = comp.create_stream("EncryptedPackage").unwrap();
        stream_package.write_all(&encrypted_package).unwrap();
    }
}


}
fn main() {}
