#![feature(allocator_api)]
use vstd::prelude::*;
use vstd::std_specs::iter::IteratorSpec;
verus! {

pub assume_specification<'a, T, A: core::alloc::Allocator>[<&'a mut Vec<T, A> as core::iter::IntoIterator>::into_iter](v: &'a mut Vec<T, A>) -> (it: <&'a mut Vec<T, A> as core::iter::IntoIterator>::IntoIter)
  ensures it.remaining().len() == old(v).len(),
    forall|i: int| 0 <= i < old(v).len() ==> *it.remaining()[i] == old(v)[i],
    forall|i: int| 0 <= i < old(v).len() ==> *final(it.remaining()[i]) == final(v)[i],
    final(v).len() == old(v).len(),
    it.obeys_prophetic_iter_laws(), it.decrease() is Some, it.will_return_none();

pub type ThinVec<T> = Vec<T>;

// ---- stubs for component types: each has an abstract view and an assumed adjust contract
#[verifier::external_body] pub struct RawWorksheet { _p: u8 }
#[verifier::external_body] pub struct SheetStateEnum { _p: u8 }
#[verifier::external_body] pub struct Cells { _p: u8 }
#[verifier::external_body] pub struct Rows { _p: u8 }
#[verifier::external_body] pub struct Columns { _p: u8 }
#[verifier::external_body] pub struct WorksheetDrawing { _p: u8 }
#[verifier::external_body] pub struct PageSetup { _p: u8 }
#[verifier::external_body] pub struct PageMargins { _p: u8 }
#[verifier::external_body] pub struct HeaderFooter { _p: u8 }
#[verifier::external_body] pub struct SheetViews { _p: u8 }
#[verifier::external_body] pub struct ConditionalFormatting { _p: u8 }
#[verifier::external_body] pub struct Range { _p: u8 }
#[verifier::external_body] pub struct AutoFilter { _p: u8 }
#[verifier::external_body] pub struct Comment { _p: u8 }
#[verifier::external_body] pub struct Color { _p: u8 }
#[verifier::external_body] pub struct StringValue { _p: u8 }
#[verifier::external_body] pub struct OleObjects { _p: u8 }
#[verifier::external_body] pub struct DefinedName { _p: u8 }
#[verifier::external_body] pub struct PrintOptions { _p: u8 }
#[verifier::external_body] pub struct ColumnBreaks { _p: u8 }
#[verifier::external_body] pub struct RowBreaks { _p: u8 }
#[verifier::external_body] pub struct Table { _p: u8 }
#[verifier::external_body] pub struct PivotTable { _p: u8 }
#[verifier::external_body] pub struct DataValidations { _p: u8 }
#[verifier::external_body] pub struct DataValidations2010 { _p: u8 }
#[verifier::external_body] pub struct SheetFormatProperties { _p: u8 }
#[verifier::external_body] pub struct SheetProtection { _p: u8 }

pub struct A4 { pub rc: u32, pub oc: u32, pub rr: u32, pub orr: u32 }
pub uninterp spec fn adj_post<T>(old: T, fin: T, a: A4) -> bool;     // "fin is old shifted by a" for component type T (assumed per stub)
pub uninterp spec fn adj_post_named<T>(old: T, fin: T, name: Seq<char>, a: A4) -> bool;
pub uninterp spec fn val_post<T>(old: T, fin: T, root: u32, off: u32) -> bool;

impl Cells {
    #[verifier::external_body]
    fn adjustment_insert_coordinate(&mut self, root_col_num: &u32, offset_col_num: &u32, root_row_num: &u32, offset_row_num: &u32)
        ensures adj_post(*old(self), *final(self), A4 { rc: *root_col_num, oc: *offset_col_num, rr: *root_row_num, orr: *offset_row_num })
    { unimplemented!() }
}
impl WorksheetDrawing {
    #[verifier::external_body]
    fn adjustment_insert_coordinate(&mut self, root_col_num: &u32, offset_col_num: &u32, root_row_num: &u32, offset_row_num: &u32)
        ensures adj_post(*old(self), *final(self), A4 { rc: *root_col_num, oc: *offset_col_num, rr: *root_row_num, orr: *offset_row_num })
    { unimplemented!() }
}
impl Comment {
    #[verifier::external_body]
    fn adjustment_insert_coordinate(&mut self, root_col_num: &u32, offset_col_num: &u32, root_row_num: &u32, offset_row_num: &u32)
        ensures adj_post(*old(self), *final(self), A4 { rc: *root_col_num, oc: *offset_col_num, rr: *root_row_num, orr: *offset_row_num })
    { unimplemented!() }
}
impl ConditionalFormatting {
    #[verifier::external_body]
    fn adjustment_insert_coordinate(&mut self, root_col_num: &u32, offset_col_num: &u32, root_row_num: &u32, offset_row_num: &u32)
        ensures adj_post(*old(self), *final(self), A4 { rc: *root_col_num, oc: *offset_col_num, rr: *root_row_num, orr: *offset_row_num })
    { unimplemented!() }
}
impl Range {
    #[verifier::external_body]
    fn adjustment_insert_coordinate(&mut self, root_col_num: &u32, offset_col_num: &u32, root_row_num: &u32, offset_row_num: &u32)
        ensures adj_post(*old(self), *final(self), A4 { rc: *root_col_num, oc: *offset_col_num, rr: *root_row_num, orr: *offset_row_num })
    { unimplemented!() }
}
impl AutoFilter {
    #[verifier::external_body]
    fn adjustment_insert_coordinate(&mut self, root_col_num: &u32, offset_col_num: &u32, root_row_num: &u32, offset_row_num: &u32)
        ensures adj_post(*old(self), *final(self), A4 { rc: *root_col_num, oc: *offset_col_num, rr: *root_row_num, orr: *offset_row_num })
    { unimplemented!() }
}

impl Columns {
    #[verifier::external_body]
    fn adjustment_insert_value(&mut self, root_num: &u32, offset_num: &u32)
        ensures val_post(*old(self), *final(self), *root_num, *offset_num) { unimplemented!() }
}
impl Rows {
    #[verifier::external_body]
    fn adjustment_insert_value(&mut self, root_num: &u32, offset_num: &u32)
        ensures val_post(*old(self), *final(self), *root_num, *offset_num) { unimplemented!() }
}
impl DefinedName {
    #[verifier::external_body]
    fn adjustment_insert_coordinate_with_sheet(&mut self, sheet_name: &str, root_col_num: &u32, offset_col_num: &u32, root_row_num: &u32, offset_row_num: &u32)
        ensures adj_post_named(*old(self), *final(self), sheet_name@, A4 { rc: *root_col_num, oc: *offset_col_num, rr: *root_row_num, orr: *offset_row_num })
    { unimplemented!() }
}
pub struct MergeCells { range: ThinVec<Range> }
impl MergeCells {
    pub closed spec fn v(&self) -> Seq<Range> { self.range@ }
    pub(crate) fn get_range_collection_mut(&mut self) -> (r: &mut ThinVec<Range>)
        ensures r@ == old(self).v(), final(r)@ == final(self).v(),
    { &mut self.range }
}

pub struct Worksheet {
    raw_data_of_worksheet: Option<RawWorksheet>,
    r_id: Box<str>,
    sheet_id: Box<str>,
    title: Box<str>,
    state: SheetStateEnum,
    cell_collection: Cells,
    row_dimensions: Rows,
    column_dimensions: Columns,
    worksheet_drawing: WorksheetDrawing,
    sheet_state: Box<str>,
    page_setup: PageSetup,
    page_margins: PageMargins,
    header_footer: HeaderFooter,
    sheet_views: SheetViews,
    conditional_formatting_collection: ThinVec<ConditionalFormatting>,
    merge_cells: MergeCells,
    auto_filter: Option<AutoFilter>,
    comments: ThinVec<Comment>,
    active_cell: Box<str>,
    tab_color: Option<Color>,
    code_name: StringValue,
    ole_objects: OleObjects,
    defined_names: ThinVec<DefinedName>,
    print_options: PrintOptions,
    column_breaks: ColumnBreaks,
    row_breaks: RowBreaks,
    tables: ThinVec<Table>,
    pivot_tables: ThinVec<PivotTable>,
    data_validations: Option<DataValidations>,
    data_validations_2010: Option<DataValidations2010>,
    sheet_format_properties: SheetFormatProperties,
    sheet_protection: Option<SheetProtection>,
}

impl Worksheet {
    pub closed spec fn v_row_dimensions(&self) -> Rows { self.row_dimensions }
    pub closed spec fn v_cell_collection(&self) -> Cells { self.cell_collection }
    pub closed spec fn v_column_dimensions(&self) -> Columns { self.column_dimensions }
    pub closed spec fn v_title(&self) -> Box<str> { self.title }
    pub closed spec fn v_merge_cells(&self) -> MergeCells { self.merge_cells }
    pub closed spec fn v_comments(&self) -> ThinVec<Comment> { self.comments }
    pub closed spec fn v_defined_names(&self) -> ThinVec<DefinedName> { self.defined_names }
    pub closed spec fn v_auto_filter(&self) -> Option<AutoFilter> { self.auto_filter }
    pub closed spec fn v_worksheet_drawing(&self) -> WorksheetDrawing { self.worksheet_drawing }
    pub closed spec fn v_conditional_formatting_collection(&self) -> ThinVec<ConditionalFormatting> { self.conditional_formatting_collection }
    #[inline]
    pub(crate) fn get_row_dimensions_crate_mut(&mut self) -> (r: &mut Rows)
        ensures *r == old(self).v_row_dimensions(), *final(r) == final(self).v_row_dimensions(),
            final(self).v_cell_collection() == old(self).v_cell_collection(), final(self).v_column_dimensions() == old(self).v_column_dimensions(),
            final(self).v_title() == old(self).v_title(), final(self).v_merge_cells() == old(self).v_merge_cells(),
            final(self).v_comments() == old(self).v_comments(), final(self).v_defined_names() == old(self).v_defined_names(),
            final(self).v_auto_filter() == old(self).v_auto_filter(), final(self).v_worksheet_drawing() == old(self).v_worksheet_drawing(),
            final(self).v_conditional_formatting_collection() == old(self).v_conditional_formatting_collection(),
    {
        &mut self.row_dimensions
    }
    #[inline]
    pub fn get_merge_cells_mut(&mut self) -> (r: &mut ThinVec<Range>)
        ensures r@ == old(self).v_merge_cells().v(), final(r)@ == final(self).v_merge_cells().v(),
            final(self).v_cell_collection() == old(self).v_cell_collection(), final(self).v_column_dimensions() == old(self).v_column_dimensions(),
            final(self).v_title() == old(self).v_title(), final(self).v_row_dimensions() == old(self).v_row_dimensions(),
            final(self).v_comments() == old(self).v_comments(), final(self).v_defined_names() == old(self).v_defined_names(),
            final(self).v_auto_filter() == old(self).v_auto_filter(), final(self).v_worksheet_drawing() == old(self).v_worksheet_drawing(),
            final(self).v_conditional_formatting_collection() == old(self).v_conditional_formatting_collection(),
    {
        self.merge_cells.get_range_collection_mut()
    }
    #[inline]
    pub fn get_auto_filter_mut(&mut self) -> Option<&mut AutoFilter>
    {
        self.auto_filter.as_mut()
    }

    fn adjustment_insert_coordinate(
        &mut self,
        root_col_num: &u32,
        offset_col_num: &u32,
        root_row_num: &u32,
        offset_row_num: &u32,
    )
        ensures
            (*offset_col_num == 0 && *offset_row_num == 0) ==> *final(self) == *old(self),
            (*offset_col_num != 0 || *offset_row_num != 0) ==> adj_post(old(self).v_cell_collection(), final(self).v_cell_collection(), A4 { rc: *root_col_num, oc: *offset_col_num, rr: *root_row_num, orr: *offset_row_num }),
            final(self).v_title() == old(self).v_title(),
    {
        if offset_col_num != &0 {
            // column dimensions
            self.column_dimensions
                .adjustment_insert_value(root_col_num, offset_col_num);
        }
        if offset_row_num != &0 {
            // row dimensions
            self.get_row_dimensions_crate_mut()
                .adjustment_insert_value(root_row_num, offset_row_num);
        }
        if (offset_col_num == &0 && offset_row_num == &0) {
            return;
        }

        // defined_names
        for defined_name in &mut self.defined_names {
            defined_name.adjustment_insert_coordinate_with_sheet(
                &self.title,
                root_col_num,
                offset_col_num,
                root_row_num,
                offset_row_num,
            );
        }

        // cell
        self.cell_collection.adjustment_insert_coordinate(
            root_col_num,
            offset_col_num,
            root_row_num,
            offset_row_num,
        );

        // worksheet_drawing
        self.worksheet_drawing.adjustment_insert_coordinate(
            root_col_num,
            offset_col_num,
            root_row_num,
            offset_row_num,
        );

        // comments
        for comment in &mut self.comments {
            comment.adjustment_insert_coordinate(
                root_col_num,
                offset_col_num,
                root_row_num,
                offset_row_num,
            );
        }

        // conditional styles
        for conditional_styles in &mut self.conditional_formatting_collection {
            conditional_styles.adjustment_insert_coordinate(
                root_col_num,
                offset_col_num,
                root_row_num,
                offset_row_num,
            );
        }

        // merge cells
        for merge_cell in self.get_merge_cells_mut() {
            merge_cell.adjustment_insert_coordinate(
                root_col_num,
                offset_col_num,
                root_row_num,
                offset_row_num,
            );
        }

        // auto filter
        if let Some(v) = self.get_auto_filter_mut() {
            v.adjustment_insert_coordinate(
                root_col_num,
                offset_col_num,
                root_row_num,
                offset_row_num,
            );
        };
    }
}

}
fn main() {}
