// ---- from /tmp/kx/src/lib.rs
#[cfg(kani)]
mod kani_harness {
    use crate::helper::coordinate::*;
    #[kani::proof]
    #[kani::unwind(4)]
    fn k_to_alpha() {
        let n: u32 = kani::any();
        kani::assume(n >= 1 && n <= 16384);
        let s = string_from_column_index(&n);
        let b = s.as_bytes();
        if n <= 26 { assert!(b.len()==1 && b[0] as u32 == 64 + n); }
        else if n <= 702 { assert!(b.len()==2 && (b[0] as u32 - 64)*26 + (b[1] as u32 - 64) == n && b[0]>=65 && b[0]<=90 && b[1]>=65 && b[1]<=90); }
        else { assert!(b.len()==3 && (b[0] as u32 - 64)*676 + (b[1] as u32 - 64)*26 + (b[2] as u32 - 64) == n && b[0]>=65 && b[0]<=90 && b[1]>=65 && b[1]<=90&& b[2]>=65 && b[2]<=90); }
    }
    fn stub_upper(s: &str) -> String { String::from(s) }
    #[kani::proof]
    #[kani::unwind(5)]
    #[kani::stub(str::to_uppercase, stub_upper)]
    fn k_from_alpha3() {
        let a: u8 = kani::any();
        let b: u8 = kani::any();
        let c: u8 = kani::any();
        kani::assume(a >= 65 && a <= 90 && b >= 65 && b <= 90 && c >= 65 && c <= 90);
        let arr = [a, b, c];
        let s = std::str::from_utf8(&arr).unwrap();
        let m = column_index_from_string(s);
        assert!(m == (a as u32 - 64)*676 + (b as u32 - 64)*26 + (c as u32 - 64));
    }
}

// ---- from /tmp/kx3/src/helper/coordinate.rs
#[cfg(kani)]
mod kani_h {
    use super::*;
    #[kani::proof_for_contract(adjustment_remove_coordinate)]
    fn k_rm() {
        let n: u32 = kani::any(); let r: u32 = kani::any(); let o: u32 = kani::any();
        adjustment_remove_coordinate(&n, &r, &o);
    }
}

// ---- from /tmp/kx3/src/helper/date.rs
#[cfg(kani)]
mod kani_d {
    use super::*;
    #[kani::proof]
    #[kani::unwind(12)]
    fn k_date() {
        let y: i32 = kani::any(); let m: i32 = kani::any(); let d: i32 = kani::any();
        kani::assume(y >= 1900 && y <= 9999 && m >= 1 && m <= 12 && d >= 1 && d <= 31);
        let r = convert_date_windows_1900(y, m, d, 0, 0, 0);
        // reference: days from civil (Hinnant), serial = days since 1899-12-30 for >= 1900-03-01
        let yy = if m <= 2 { y - 1 } else { y };
        let era = yy / 400;
        let yoe = yy - era * 400;
        let mp = (m + 9) % 12;
        let doy = (153 * mp + 2) / 5 + d - 1;
        let doe = yoe * 365 + yoe / 4 - yoe / 100 + doy;
        let days = era * 146097 + doe - 719468; // days since 1970-01-01
        let serial = days + 25569; // 1970-01-01 is serial 25569
        let expect = if y == 1900 && m <= 2 { serial - 1 } else { serial };
        assert!(r == expect as f64);
    }
}
