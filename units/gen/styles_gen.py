#!/usr/bin/env python3
"""writes units/styles.rs.tmpl"""
import os
HERE = os.path.dirname(os.path.abspath(__file__))

def comp_table(T, f, E, vec, setter, getter, hash_spec):
    """Fonts / Fills / BordersCrate: real struct, real set_<x>, real set_style."""
    return '''
//@item src/structs/%(f)s.rs | struct %(T)s
impl %(T)s {
    pub closed spec fn items(&self) -> Seq<%(E)s> { self.%(vec)s@ }

//@fn src/structs/%(f)s.rs | impl %(T)s | %(setter)s | ret=r
//@spec
        ensures r.items() == old(self).items().push(value), *final(r) == *final(self),
//@endfn

//@fn src/structs/%(f)s.rs | impl %(T)s | set_style | ret=id
//@spec
        requires old(self).items().len() < u32::MAX,
        ensures
            // append-only; nothing is appended when an entry with the same key is already there
            old(self).items().is_prefix_of(final(self).items()),
            final(self).items().len() <= old(self).items().len() + 1,
            (sty_%(getter)s(style) is Some && exists|j: int| 0 <= j < old(self).items().len() && %(hash_spec)s(&old(self).items()[j]) == %(hash_spec)s(&sty_%(getter)s(style)->0))
                ==> final(self).items() == old(self).items(),
            sty_%(getter)s(style) is None ==> id == 0 && final(self).items() == old(self).items(),
            // the id designates an entry with the key of this style's component
            sty_%(getter)s(style) is Some ==> id < final(self).items().len() && %(hash_spec)s(&final(self).items()[id as int]) == %(hash_spec)s(&sty_%(getter)s(style)->0),
            // and it is the first such entry
            sty_%(getter)s(style) is Some ==> forall|j: int| 0 <= j < id ==> %(hash_spec)s(&final(self).items()[j]) != %(hash_spec)s(&sty_%(getter)s(style)->0),
//@loop 1 it
                    invariant
                        id == it.index(),
                        it.seq().len() == self.%(vec)s@.len(),
                        self.%(vec)s@.len() < u32::MAX,
                        *self == *old(self),
                        hash_code@ == %(hash_spec)s(v),
                        sty_%(getter)s(style) == Some(v),
                        forall|j: int| 0 <= j < it.seq().len() ==> *it.seq()[j] == self.%(vec)s@[j],
                        forall|j: int| 0 <= j < it.index() ==> %(hash_spec)s(&self.%(vec)s@[j]) != %(hash_spec)s(v),
//@endfn
}
''' % dict(T=T, f=f, E=E, vec=vec, setter=setter, getter=getter, hash_spec=hash_spec)

head = open(os.path.join(HERE, "styles_head.txt")).read()
body = head
body += comp_table("Fonts", "fonts", "Font", "font", "set_font", "font", "font_key")
body += comp_table("Fills", "fills", "Fill", "fill", "set_fill", "fill", "fill_key")
body += comp_table("BordersCrate", "borders_crate", "Borders", "borders", "set_borders", "borders", "borders_key")
body += open(os.path.join(HERE, "styles_tail.txt")).read()
open(os.path.join(HERE, "..", "styles.rs.tmpl"), "w").write(body)
