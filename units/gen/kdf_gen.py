#!/usr/bin/env python3
"""writes units/kdf.rs.tmpl (the repetitive setter contracts are generated, the rest is literal)."""
import os
HERE = os.path.dirname(os.path.abspath(__file__))
hdr = open(os.path.join(HERE, "kdf_head.txt")).read()
VIEWS = {
 'SheetProtection': ['algorithm_name','hash_value','salt_value','spin_count','password'],
 'WorkbookProtection': ['workbook_algorithm_name','workbook_hash_value','workbook_salt_value','workbook_spin_count','workbook_password',
                        'revisions_algorithm_name','revisions_hash_value','revisions_salt_value','revisions_spin_count','revisions_password'],
}
def ty(field): return 'UInt32Value' if field.endswith('spin_count') else 'StringValue'
def accessors(T):
    return "".join("    pub closed spec fn v_%s(&self) -> %s { self.%s }\n" % (f, ty(f), f) for f in VIEWS[T])
def setter(T, f, fn, field, kind):
    others = [v for v in VIEWS[T] if v != field]
    frame = ", ".join("r.v_%s() == old(self).v_%s()" % (o, o) for o in others)
    if kind == 's':
        post = "sv(&r.v_%s()) == Some(sp_into::<S>(value))" % field
    elif kind == 'u':
        post = "uv(&r.v_%s()) == Some(value)" % field
    else:
        post = "sv(&r.v_%s()) is None" % field
    return '''//@fn src/structs/%s.rs | impl %s | %s | ret=r
//@spec
        ensures %s, %s, *final(r) == *final(self),
//@endfn
''' % (f, T, fn, post, frame)
def getter(T, f, field):
    if ty(field) == 'StringValue':
        post = "r@ == sv_str(&self.v_%s())" % field
    else:
        post = "*r == uv_num(&self.v_%s())" % field
    return '''//@fn src/structs/%s.rs | impl %s | get_%s | ret=r
//@spec
        ensures %s,
//@endfn
''' % (f, T, field, post)
body = hdr
body += "impl SheetProtection {\n" + accessors('SheetProtection')
for fn, field, kind in [('set_algorithm_name','algorithm_name','s'),('set_hash_value','hash_value','s'),('set_salt_value','salt_value','s'),('set_spin_count','spin_count','u'),('remove_password_raw','password','r')]:
    body += setter('SheetProtection','sheet_protection',fn,field,kind)
for field in ['algorithm_name','hash_value','salt_value','spin_count']:
    body += getter('SheetProtection','sheet_protection',field)
body += "}\nimpl WorkbookProtection {\n" + accessors('WorkbookProtection')
for p in ('workbook','revisions'):
    for fn, field, kind in [('set_%s_algorithm_name'%p,'%s_algorithm_name'%p,'s'),('set_%s_hash_value'%p,'%s_hash_value'%p,'s'),('set_%s_salt_value'%p,'%s_salt_value'%p,'s'),('set_%s_spin_count'%p,'%s_spin_count'%p,'u'),('remove_%s_password_raw'%p,'%s_password'%p,'r')]:
        body += setter('WorkbookProtection','workbook_protection',fn,field,kind)
    for field in ['%s_algorithm_name'%p,'%s_hash_value'%p,'%s_salt_value'%p,'%s_spin_count'%p]:
        body += getter('WorkbookProtection','workbook_protection',field)
body += "}\n"
def enc(fnname, T, param, pre):
    g = lambda x: "v_%s%s()" % (pre, x)
    others = [v for v in VIEWS[T] if not v.startswith(pre)] if pre else []
    frame = "".join(",\n        final(%s).v_%s() == old(%s).v_%s()" % (param, o, param, o) for o in others)
    return '''
//@fn src/helper/crypt.rs | - | %s
//@spec
    ensures
        // algorithm name and spin count as ECMA-376 prescribes them for this library's choice (SHA-512, 100000)
        sv(&final(%s).%s) == Some("SHA-512"@),
        uv(&final(%s).%s) == Some(100000u32),
        // the stored hash is the ISO hash of THIS password under the STORED salt; the salt is the 16-byte value drawn in this call
        exists|salt: Seq<u8>| salt.len() == 16 && drawn(salt)
            && sv(&final(%s).%s) == Some(spec_base64(salt))
            && sv(&final(%s).%s) == Some(spec_base64(iso_hash(salt, utf16le(password@), 100000))),
        // no clear-text password remains in the model
        sv(&final(%s).%s) is None%s,
//@at call:encode#1:before
    let ghost salt0 = key_salt_value@;
//@at fn:end
    proof {
        assert(sv(&%s.%s) == Some(spec_base64(salt0)));
        assert(sv(&%s.%s) == Some(spec_base64(iso_hash(salt0, utf16le(password@), 100000))));
    }
//@endfn
''' % (fnname, param, g('algorithm_name'), param, g('spin_count'), param, g('salt_value'), param, g('hash_value'), param, g('password'), frame, param, g('salt_value'), param, g('hash_value'))
body += enc('encrypt_sheet_protection','SheetProtection','sheet_protection','')
body += enc('encrypt_workbook_protection','WorkbookProtection','workbook_protection','workbook_')
body += enc('encrypt_revisions_protection','WorkbookProtection','workbook_protection','revisions_')
body += "\n}\nfn main() {}\n"
open(os.path.join(HERE, "..", "kdf.rs.tmpl"), "w").write(body)
