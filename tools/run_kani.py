"""Kani/CBMC pass: scratch copy of /repo, harness modules appended under #[cfg(kani)], one
`cargo kani` invocation for the requested harnesses, per-harness result parsing, concrete
playback and replay files for failures.  Time/memory limits -> 'undecided', never an alarm."""
import json
import os
import re
import resource
import shutil
import subprocess
import sys
import tempfile
import time

VERIF = os.path.dirname(os.path.dirname(os.path.abspath(__file__)))


def load_index():
    return json.load(open(os.path.join(VERIF, "kani", "INDEX.json")))


def _limits():
    # address-space cap per process (CBMC can grow to tens of GB); 40 GB
    try:
        resource.setrlimit(resource.RLIMIT_AS, (40 << 30, 40 << 30))
    except Exception:
        pass


def _make_scratch(repo, names, idx):
    scratch = tempfile.mkdtemp(prefix="umya_verif_kani_")
    dst = os.path.join(scratch, "crate")
    subprocess.run(["rsync", "-a", "--exclude", "target", "--exclude", ".git", "--exclude", "tests",
                    "--exclude", "images", repo.rstrip("/") + "/", dst + "/"], check=True)
    os.makedirs(os.path.join(dst, ".cargo"), exist_ok=True)
    with open(os.path.join(dst, ".cargo", "config.toml"), "w") as fh:
        fh.write("[net]\noffline = true\n")
    done = set()
    for n in names:
        h = idx[n]
        key = (h["module"], h["target"])
        if key in done:
            continue
        done.add(key)
        tgt = os.path.join(dst, h["target"])
        if not os.path.exists(tgt):
            raise FileNotFoundError("lost anchor: %s no longer exists" % h["target"])
        with open(tgt, "a") as fh:
            fh.write("\n" + open(os.path.join(VERIF, h["module"])).read() + "\n")
    return scratch, dst


def _run(cmd, cwd, timeout):
    env = dict(os.environ)
    env["CARGO_NET_OFFLINE"] = "true"
    t0 = time.time()
    try:
        p = subprocess.run(cmd, cwd=cwd, stdout=subprocess.PIPE, stderr=subprocess.STDOUT, timeout=timeout,
                           env=env, preexec_fn=_limits)
        return p.returncode, p.stdout.decode("utf-8", "replace"), time.time() - t0
    except subprocess.TimeoutExpired as e:
        out = (e.stdout or b"").decode("utf-8", "replace")
        # make sure nothing is left running
        subprocess.run(["pkill", "-f", cwd], stdout=subprocess.DEVNULL, stderr=subprocess.DEVNULL)
        return None, out, time.time() - t0


def _parse(out, names):
    """per-harness sections of cargo-kani output."""
    res = {}
    # with -j N every message is prefixed 'Thread k: ' (continuation lines are not); regroup per thread
    if re.search(r"(?m)^Thread \d+: ", out):
        chunks = re.split(r"(?m)^Thread (\d+): ", out)
        per = {}
        order = []
        for i in range(1, len(chunks), 2):
            t, msg = chunks[i], chunks[i + 1]
            if msg.startswith("Checking harness "):
                order.append(t + ":" + str(len(order)))
                per[t] = order[-1]
                per.setdefault("_txt", {})[order[-1]] = msg
            elif t in per:
                per["_txt"][per[t]] += msg
        out = "\n".join(per.get("_txt", {}).get(k, "") for k in order)
    # sections start with 'Checking harness <path>...'
    parts = re.split(r"(?m)^Checking harness ", out)
    for sec in parts[1:]:
        head = sec.split("...", 1)[0].strip()
        short = head.split("::")[-1]
        if short not in names:
            continue
        d = dict(status=None, checks=0, failed=0, failed_checks=[], time_s=None)
        m = re.search(r"\*\* (\d+) of (\d+) failed", sec)
        if m:
            d["failed"], d["checks"] = int(m.group(1)), int(m.group(2))
        m = re.search(r"Verification Time: ([0-9.]+)s", sec)
        if m:
            d["time_s"] = float(m.group(1))
        if "VERIFICATION:- SUCCESSFUL" in sec:
            d["status"] = "ok"
        elif "VERIFICATION:- FAILED" in sec:
            d["status"] = "fail"
            for fm in re.finditer(r"Failed Checks: (.*)", sec):
                d["failed_checks"].append(fm.group(1).strip())
            # unwinding assertion failures / unsupported features are not property violations
            fc = " ".join(d["failed_checks"])
            if re.search(r"unwinding assertion|not currently supported|unsupported", fc) and not \
                    re.search(r"assertion failed: ", fc):
                d["status"] = "undecided"
        if d["status"] == "fail" and "VERIF-UNMODELLED" in " ".join(d["failed_checks"]):
            # a stub of the harness met a call it does not model (e.g. another format string): no verdict
            d["status"] = "undecided"
        if "CBMC failed" in sec or "out of memory" in sec.lower() or "memory exhausted" in sec.lower():
            d["status"] = "undecided"
        res[short] = d
    return res


def run_harnesses(prop, names, tier, repo="/repo", jobs=4):
    idx = load_index()
    results = []
    try:
        scratch, dst = _make_scratch(repo, names, idx)
    except FileNotFoundError as e:
        return [dict(harness=n, fn=idx[n]["fn"], status="undecided", reason=str(e)) for n in names]
    try:
        cmd = ["cargo", "kani", "-Z", "function-contracts", "-Z", "stubbing", "--output-format", "terse", "-j", str(jobs)]
        for n in names:
            cmd += ["--harness", n]
        tmo = max(idx[n].get("timeout", 900) for n in names) + 600
        rc, out, wall = _run(cmd, dst, tmo)
        parsed = _parse(out, names)
        compile_err = None
        if rc is None:
            compile_err = "wall-time cap of %ds reached" % tmo
        elif not parsed:
            m = re.search(r"(?s)(error(\[E\d+\])?: .*?)(\n\n|$)", out)
            compile_err = "cargo kani produced no harness result (compile error or unsupported construct): %s" % (
                m.group(1)[:600] if m else out[-600:])
        for n in names:
            h = idx[n]
            r = dict(harness=n, fn=h["fn"], file=h["target"], kind=h["kind"], assumptions=h.get("assumptions", []),
                     domain=h.get("domain", ""), cmd=" ".join(cmd[:9]) + " --harness " + n,
                     bounded=h.get("bounded"))
            p = parsed.get(n)
            if p is None or p["status"] is None:
                r["status"] = "undecided"
                r["reason"] = compile_err or "no verdict for this harness (killed, out of memory or not reached)"
            elif p["status"] == "undecided":
                r["status"] = "undecided"
                r["reason"] = "CBMC gave no verdict on the property: %s" % "; ".join(p["failed_checks"])[:400]
            else:
                r["status"] = p["status"]
                r["checks"] = p["checks"]
                r["time_s"] = p["time_s"]
                if p["status"] == "fail":
                    r["failed_check"] = "; ".join(p["failed_checks"])[:600]
                    r["output"] = _section(out, n)
                    # a concrete counterexample is extracted for the first two failing harnesses only (each extraction is
                    # another CBMC run; a change that breaks a whole tiled domain would otherwise cost one per range)
                    nplay = sum(1 for x in results if x.get("status") == "fail")
                    r["playback"] = _playback(dst, n, h) if nplay < 2 else None
            results.append(r)
        return results
    finally:
        shutil.rmtree(scratch, ignore_errors=True)


def _section(out, name):
    parts = re.split(r"(?m)^Checking harness ", out)
    for sec in parts[1:]:
        if sec.split("...", 1)[0].strip().split("::")[-1] == name:
            return "Checking harness " + sec[:6000]
    return ""


def _playback(dst, name, h):
    """re-run one failing harness with concrete playback; returns the list of decimal values."""
    cmd = ["cargo", "kani", "-Z", "function-contracts", "-Z", "stubbing", "-Z", "concrete-playback",
           "--concrete-playback=print", "--output-format", "terse", "--harness", name]
    rc, out, wall = _run(cmd, dst, h.get("timeout", 900) + 300)
    vals = []
    m = re.search(r"(?s)let concrete_vals: Vec<Vec<u8>> = vec!\[(.*?)\];", out)
    if not m:
        return None
    for vm in re.finditer(r"//\s*(-?\d+)[^\n]*\n\s*vec!\[([0-9, ]*)\]", m.group(1)):
        vals.append(int(vm.group(1)))
    return vals


# replay = a #[cfg(test)] module appended to the real source file in a scratch copy of /repo's current tree
# (the functions are pub(crate), so a replay has to live inside the crate); {0}, {1}.. are the concrete values
REPLAY_TEMPLATES = {
    "k_from_alpha1": ("src/helper/coordinate.rs", "let s = String::from_utf8(vec![{0} as u8]).unwrap(); let got = column_index_from_string(&s); let want = ({0} as u32 - 64);"),
    "k_from_alpha2": ("src/helper/coordinate.rs", "let s = String::from_utf8(vec![{0} as u8, {1} as u8]).unwrap(); let got = column_index_from_string(&s); let want = ({0} as u32 - 64) * 26 + ({1} as u32 - 64);"),
    "k_from_alpha3": ("src/helper/coordinate.rs", "let s = String::from_utf8(vec![{0} as u8, {1} as u8, {2} as u8]).unwrap(); let got = column_index_from_string(&s); let want = ({0} as u32 - 64) * 676 + ({1} as u32 - 64) * 26 + ({2} as u32 - 64);"),
    "k_to_alpha": ("src/helper/coordinate.rs", "let n: u32 = {0}; let got = string_from_column_index(&n); let want = {{ let mut v = Vec::new(); let mut x = n; while x > 0 {{ let r = (x - 1) % 26; v.push((65 + r) as u8); x = (x - 1) / 26; }} v.reverse(); String::from_utf8(v).unwrap() }};"),
    "k_date_full": ("src/helper/date.rs", "let (y, m, d): (i32, i32, i32) = ({0}, {1}, {2}); let got = convert_date_windows_1900(y, m, d, 0, 0, 0); let want = {{ let yy = if m <= 2 {{ y - 1 }} else {{ y }}; let era = yy / 400; let yoe = yy - era * 400; let mp = (m + 9) % 12; let doy = (153 * mp + 2) / 5 + d - 1; let doe = yoe * 365 + yoe / 4 - yoe / 100 + doy; let serial = era * 146097 + doe - 719468 + 25569; (if y == 1900 && m <= 2 {{ serial - 1 }} else {{ serial }}) as f64 }};"),
    "k_serial_to_date_0": ("src/helper/date.rs", "let n: u32 = {0}; let got = excel_to_date_time_object(&(n as f64), None).to_string(); let want = {{ let z = n as i64 - 25569 + 719468 + (if n < 60 {{ 1 }} else {{ 0 }}); let era = z / 146097; let doe = z - era * 146097; let yoe = (doe - doe / 1460 + doe / 36524 - doe / 146096) / 365; let y0 = yoe + era * 400; let doy = doe - (365 * yoe + yoe / 4 - yoe / 100); let mp = (5 * doy + 2) / 153; let d = doy - (153 * mp + 2) / 5 + 1; let m = if mp < 10 {{ mp + 3 }} else {{ mp - 9 }}; let y = if m <= 2 {{ y0 + 1 }} else {{ y0 }}; format!(\"{{:04}}-{{:02}}-{{:02}} 00:00:00\", y, m, d) }};"),
    "k_shift_ins": ("src/helper/coordinate.rs", "let (n, p, k): (u32, u32, u32) = ({0}, {1}, {2}); let got = adjustment_insert_coordinate(&n, &p, &k); let want = if k != 0 && n >= p {{ n + k }} else {{ n }};"),
    "k_shift_rem": ("src/helper/coordinate.rs", "let (n, p, k): (u32, u32, u32) = ({0}, {1}, {2}); let got = adjustment_remove_coordinate(&n, &p, &k); let want = if k != 0 && n >= p {{ n - k }} else {{ n }};"),
    "k_shift_band": ("src/helper/coordinate.rs", "let (n, p, k): (u32, u32, u32) = ({0}, {1}, {2}); let got = is_remove_coordinate(&n, &p, &k); let want = p != 0 && k != 0 && p <= n && n < p + k;"),
}


for _i in range(1, 40):
    REPLAY_TEMPLATES["k_serial_to_date_%02d" % _i] = REPLAY_TEMPLATES["k_serial_to_date_0"]


def write_replay(prop, kr):
    d = os.path.join(VERIF, "replays")
    os.makedirs(d, exist_ok=True)
    name = kr["harness"]
    vals = kr.get("playback")
    tmpl = REPLAY_TEMPLATES.get(name)
    if vals and tmpl and _fits(tmpl[1], vals):
        body = tmpl[1].format(*vals)
        path = os.path.join(d, "%s-%s.rs" % (prop, name))
        with open(path, "w") as fh:
            fh.write("// replay-target: %s\n" % tmpl[0])
            fh.write("// replay of the Kani counterexample for harness %s (property %s, function %s); concrete inputs: %s\n" % (name, prop, kr["fn"], vals))
            fh.write("// run: ./check --replay %s   (appends this module to the real source file in a scratch copy of /repo's current tree and runs it; exit 1 = the real code still fails)\n" % path)
            fh.write("#[cfg(test)]\nmod __verif_replay {\n    use super::*;\n    #[test]\n    fn replay() {\n        %s\n        println!(\"got = {:?}, want = {:?}\", got, want);\n        assert!(got == want, \"REPLAY-FAILS: got {:?}, want {:?}\", got, want);\n    }\n}\n" % body)
        rc = run_replay(path, os.environ.get("VERIF_REPO", "/repo"), quiet=True)
        if rc == 1:
            return path, True
    path = os.path.join(d, "%s-%s.txt" % (prop, name))
    with open(path, "w") as fh:
        fh.write("property: %s\nbackend: kani\nharness: %s\nfunction: %s\nobligation: kani/%s/%s\nkind: kani\n" % (
            prop, name, kr["fn"], kr["fn"], name))
        fh.write("failed-check: %s\nconcrete-values: %s\n" % (kr.get("failed_check", ""), vals))
        fh.write("failing-input: %s\n" % ("see concrete-values (the standalone replay did not reproduce)" if vals else "none -- no-failing-input-found"))
        fh.write("\n---- verifier output ----\n%s\n" % kr.get("output", ""))
    return path, False


def _fits(t, vals):
    idxs = [int(x) for x in re.findall(r"(?<!\{)\{(\d+)\}(?!\})", t)]
    return all(i < len(vals) for i in idxs)


def run_replay(path, repo="/repo", quiet=False):
    txt = open(path).read()
    m = re.search(r"^// replay-target: (\S+)", txt, re.M)
    if not m:
        print("not a replay module")
        return 2
    scratch = tempfile.mkdtemp(prefix="umya_verif_replay_")
    try:
        dst = os.path.join(scratch, "crate")
        subprocess.run(["rsync", "-a", "--exclude", "target", "--exclude", ".git", "--exclude", "images",
                        repo.rstrip("/") + "/", dst + "/"], check=True)
        tgt = os.path.join(dst, m.group(1))
        if not os.path.exists(tgt):
            print("replay target %s no longer exists" % m.group(1))
            return 2
        with open(tgt, "a") as fh:
            fh.write("\n" + txt + "\n")
        env = dict(os.environ)
        env["CARGO_NET_OFFLINE"] = "true"
        env["CARGO_TARGET_DIR"] = os.path.join(scratch, "target")
        p = subprocess.run(["cargo", "test", "--offline", "--lib", "__verif_replay", "--", "--nocapture"], cwd=dst, stdout=subprocess.PIPE,
                           stderr=subprocess.STDOUT, timeout=2400, env=env)
        out = p.stdout.decode("utf-8", "replace")
        if not quiet:
            print(out[-1500:])
        if "REPLAY-FAILS" in out or re.search(r"test .*replay \.\.\. FAILED", out):
            return 1
        if re.search(r"test .*replay \.\.\. ok", out):
            return 0
        return 2
    finally:
        shutil.rmtree(scratch, ignore_errors=True)


def rerun_from_txt(kv, repo):
    name = kv.get("harness")
    res = run_harnesses("replay", [name], "thorough", repo)
    r = res[0]
    print(r["status"], r.get("failed_check", r.get("reason", "")))
    return {"ok": 0, "fail": 1}.get(r["status"], 2)


if __name__ == "__main__":
    names = sys.argv[1:]
    for r in run_harnesses("cli", names, "thorough"):
        r.pop("output", None)
        print(json.dumps(r, indent=1))
