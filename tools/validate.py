#!/usr/bin/env python3
"""validate MANIFEST.json and evidence/*.json against the schemas (uses the tooling venv if needed)."""
import json, sys, glob, os
try:
    import jsonschema
except ImportError:
    if os.environ.get("VERIF_VALIDATE_REEXEC"):
        print("jsonschema not available"); sys.exit(3)
    os.environ["VERIF_VALIDATE_REEXEC"] = "1"
    os.execvp("python3-vt", ["python3-vt", os.path.abspath(__file__)] + sys.argv[1:])
V = os.path.dirname(os.path.dirname(os.path.abspath(__file__)))
ok = True
def val(path, schema):
    global ok
    try:
        jsonschema.validate(json.load(open(path)), json.load(open(schema)))
        print("valid  ", path)
    except Exception as e:
        ok = False
        print("INVALID", path, str(e)[:300])
if os.path.exists(V + "/MANIFEST.json"):
    val(V + "/MANIFEST.json", "/root/.vp/MANIFEST.schema.json")
for p in sorted(glob.glob(V + "/evidence/*.json")):
    val(p, "/root/.vp/EVIDENCE.schema.json")
sys.exit(0 if ok else 1)
