#!/bin/bash
# confirm_seed.sh <worktree> : for every out/k in the worktree, confirm independently that the patch
# (a) applies and compiles, (b) leaves the existing suite as on the pristine tree, (c) makes the demo fail,
# and that the demo passes without the patch. Writes <worktree>/out/k/confirm.txt
W=$1
export CARGO_NET_OFFLINE=true CARGO_TARGET_DIR=$W/target
cd $W || exit 2
git checkout -q -- . ; rm -f tests/zz_demo_*.rs
for d in out/*/; do
  k=$(basename $d)
  [ -f $d/patch.diff ] || continue
  R=$d/confirm.txt; : > $R
  echo "== $W $k" >> $R
  demo_target=""
  if grep -q "mod zz_demo" $d/demo.rs 2>/dev/null && ! grep -q "use umya_spreadsheet" $d/demo.rs; then demo_target="inline"; fi
  # demo without patch
  cp $d/demo.rs tests/zz_demo_$k.rs
  timeout 1500 cargo test --offline --test zz_demo_$k > /tmp/seedlog_$$ 2>&1; rc=$?
  echo "demo_without_patch_rc=$rc $(grep -E '^test result' /tmp/seedlog_$$ | tail -1)" >> $R
  rm -f tests/zz_demo_$k.rs
  # apply
  if ! git apply $d/patch.diff 2>>$R; then echo "apply=FAILED" >> $R; git checkout -q -- .; continue; fi
  echo "apply=ok" >> $R
  timeout 2400 cargo test --offline --no-fail-fast > /tmp/seedlog_$$ 2>&1
  echo "suite_with_patch: $(grep -E '^test result' /tmp/seedlog_$$ | tr '\n' ' ')" >> $R
  echo "suite_failed_tests: $(grep -E '^test .* FAILED' /tmp/seedlog_$$ | tr '\n' ' ')" >> $R
  cp $d/demo.rs tests/zz_demo_$k.rs
  timeout 1500 cargo test --offline --test zz_demo_$k > /tmp/seedlog_$$ 2>&1; rc=$?
  echo "demo_with_patch_rc=$rc $(grep -E '^test result' /tmp/seedlog_$$ | tail -1)" >> $R
  rm -f tests/zz_demo_$k.rs
  git checkout -q -- . ; git clean -fdq tests/ 2>/dev/null
done
rm -f /tmp/seedlog_$$
cat out/*/confirm.txt
