#!/usr/bin/env python3
"""seedrun.py <patch.diff> <Cxx> [<Cyy> ...] : apply a seeded change to /repo, run the checks, undo it."""
import subprocess, sys, os, re, json
patch = sys.argv[1]
props = sys.argv[2:]
V = os.path.dirname(os.path.dirname(os.path.abspath(__file__)))
def sh(cmd, **kw):
    return subprocess.run(cmd, shell=True, stdout=subprocess.PIPE, stderr=subprocess.STDOUT, text=True, **kw)
st = sh("git -C /repo status --porcelain --untracked-files=no").stdout.strip()
if st:
    print("refusing: /repo has local modifications:\n" + st); sys.exit(3)
r = sh("git -C /repo apply --whitespace=nowarn %s" % patch)
if r.returncode != 0:
    r = sh("git -C /repo apply -3 --whitespace=nowarn %s" % patch)
    if r.returncode != 0:
        print("APPLY-FAILED", r.stdout[-500:]); sh("git -C /repo reset -q --hard HEAD"); sys.exit(4)
res = {}
try:
    for p in props:
        c = sh("cd %s && ./check %s --tier %s" % (V, p, os.environ.get("SEED_TIER", "quick")))
        lines = [l for l in c.stdout.split("\n") if l.startswith("VIOLATION") or l.startswith("UNDECIDED") or l.startswith("  obligation")]
        res[p] = dict(rc=c.returncode, lines=[l[:300] for l in lines][:8])
finally:
    sh("git -C /repo reset -q --hard HEAD")
print(json.dumps(res, indent=1))
