#!/bin/sh
# nothing is built ahead of time: every check regenerates its units from /repo.
set -e
command -v verus >/dev/null || { echo "verus missing"; exit 1; }
command -v python3 >/dev/null || { echo "python3 missing"; exit 1; }
command -v cargo-kani >/dev/null || echo "warning: cargo-kani missing (Kani harnesses will be undecided)"
mkdir -p /verif/evidence /verif/replays
echo setup ok
