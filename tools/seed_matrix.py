#!/usr/bin/env python3
"""run every seeded change against the checks of the properties it breaks; write seeded/RESULTS.json.
Applies each patch to /repo, runs ./check, undoes it straight afterwards (tools/seedrun.py)."""
import json, os, subprocess, sys, glob
V = os.path.dirname(os.path.dirname(os.path.abspath(__file__)))
only = sys.argv[1:]
res = {}
rp = os.path.join(V, "seeded", "RESULTS.json")
if os.path.exists(rp):
    res = json.load(open(rp))
for d in sorted(glob.glob(os.path.join(V, "seeded", "[STUVWXYZ]*_*"))):
    m = json.load(open(os.path.join(d, "meta.json")))
    if only and m["id"] not in only and not any(m["id"].startswith(o) for o in only):
        continue
    env = dict(os.environ); env["SEED_TIER"] = m.get("tier", "quick")
    pf = os.path.join(d, "patch_rebased.diff")
    if not os.path.exists(pf):
        pf = os.path.join(d, "patch.diff")
    p = subprocess.run([sys.executable, os.path.join(V, "tools", "seedrun.py"), pf] + m["breaks"],
                       stdout=subprocess.PIPE, stderr=subprocess.STDOUT, text=True, env=env)
    try:
        out = json.loads(p.stdout[p.stdout.index("{"):])
    except Exception:
        out = {"error": p.stdout[-400:]}
    verdict = "missed"
    if "error" in out and "APPLY-FAILED" in str(out.get("error")):
        verdict = "n/a: patch no longer applies to the current tree"
    for pr, r in out.items():
        if isinstance(r, dict) and r.get("rc") == 1:
            verdict = "caught"
    if verdict != "caught" and any(isinstance(r, dict) and r.get("rc") == 2 for r in out.values()):
        verdict = "undecided (exit 2)"
    res[m["id"]] = dict(verdict=verdict, tier=m.get("tier", "quick"), detail=out)
    print(m["id"], verdict, flush=True)
    json.dump(res, open(rp, "w"), indent=1)
