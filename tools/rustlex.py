"""Minimal Rust lexer + item locator (python3 stdlib only).

It does not parse Rust.  It knows comments, string / raw-string / byte-string / char
literals vs lifetimes, identifiers, numbers and punctuation, and it can match brackets.
That is enough to find `fn NAME` inside `impl X`, the signature/body split, the n-th
loop of a body and the statement that contains the k-th call of a callee.
"""
import re


class LexError(Exception):
    pass


class Tok:
    __slots__ = ("kind", "text", "start", "end")

    def __init__(self, kind, text, start, end):
        self.kind, self.text, self.start, self.end = kind, text, start, end

    def __repr__(self):
        return "Tok(%s,%r,%d)" % (self.kind, self.text, self.start)


_ident = re.compile(r"[A-Za-z_][A-Za-z0-9_]*")
_num = re.compile(r"[0-9][0-9A-Za-z_]*(\.[0-9][0-9A-Za-z_]*)?")
_PUNCT3 = ("<<=", ">>=", "...", "..=")
_PUNCT2 = ("->", "=>", "::", "==", "!=", "<=", ">=", "&&", "||", "+=", "-=", "*=", "/=", "%=",
           "^=", "&=", "|=", "<<", ">>", "..")


def lex(src):
    """Return the list of significant tokens (comments and whitespace are skipped)."""
    toks = []
    i, n = 0, len(src)
    while i < n:
        c = src[i]
        if c.isspace():
            i += 1
            continue
        if src.startswith("//", i):
            j = src.find("\n", i)
            j = n if j < 0 else j
            toks.append(Tok("comment", src[i:j], i, j))
            i = j
            continue
        if src.startswith("/*", i):
            depth, j = 1, i + 2
            while j < n and depth:
                if src.startswith("/*", j):
                    depth += 1
                    j += 2
                elif src.startswith("*/", j):
                    depth -= 1
                    j += 2
                else:
                    j += 1
            toks.append(Tok("comment", src[i:j], i, j))
            i = j
            continue
        # raw strings r"..", r#".."#, br".."
        m = re.match(r"b?r(#*)\"", src[i:i + 40])
        if m:
            hashes = m.group(1)
            close = '"' + hashes
            j = src.find(close, i + m.end())
            if j < 0:
                raise LexError("unterminated raw string at %d" % i)
            j += len(close)
            toks.append(Tok("str", src[i:j], i, j))
            i = j
            continue
        if c == '"' or (c == "b" and src.startswith('b"', i)):
            j = i + (2 if c == "b" else 1)
            while j < n and src[j] != '"':
                j += 2 if src[j] == "\\" else 1
            j += 1
            toks.append(Tok("str", src[i:j], i, j))
            i = j
            continue
        if c == "'" or (c == "b" and src.startswith("b'", i)):
            k = i + (1 if c == "b" else 0)
            # char literal or lifetime?
            m = re.match(r"'(\\.[^']*|[^\\'])'", src[k:k + 14])
            if m:
                j = k + m.end()
                toks.append(Tok("char", src[i:j], i, j))
                i = j
                continue
            m = re.match(r"'[A-Za-z_][A-Za-z0-9_]*", src[k:k + 64])
            if m:
                j = k + m.end()
                toks.append(Tok("lifetime", src[i:j], i, j))
                i = j
                continue
            raise LexError("bad quote at %d" % i)
        m = _ident.match(src, i)
        if m:
            toks.append(Tok("ident", m.group(0), i, m.end()))
            i = m.end()
            continue
        m = _num.match(src, i)
        if m:
            toks.append(Tok("num", m.group(0), i, m.end()))
            i = m.end()
            continue
        for p in _PUNCT3 + _PUNCT2:
            if src.startswith(p, i):
                toks.append(Tok("punct", p, i, i + len(p)))
                i += len(p)
                break
        else:
            toks.append(Tok("punct", c, i, i + 1))
            i += 1
    return toks


def sig(toks):
    """significant tokens only (drops comments)."""
    return [t for t in toks if t.kind != "comment"]


OPEN = {"{": "}", "(": ")", "[": "]"}
CLOSE = {v: k for k, v in OPEN.items()}


def match_brackets(toks):
    """index -> index of the matching bracket (both directions)."""
    stack, m = [], {}
    for i, t in enumerate(toks):
        if t.kind != "punct":
            continue
        if t.text in OPEN:
            stack.append(i)
        elif t.text in CLOSE:
            if not stack:
                raise LexError("unbalanced %s at %d" % (t.text, t.start))
            j = stack.pop()
            if OPEN[toks[j].text] != t.text:
                raise LexError("mismatched bracket at %d" % t.start)
            m[i] = j
            m[j] = i
    if stack:
        raise LexError("unclosed bracket at %d" % toks[stack[-1]].start)
    return m


def norm(text):
    """whitespace/comment-insensitive form of a code fragment."""
    return " ".join(t.text for t in sig(lex(text)))


class SourceFile:
    def __init__(self, path, text):
        self.path = path
        self.text = text
        self.toks = sig(lex(text))
        self.match = match_brackets(self.toks)
        # brace depth of every token (depth before the token is processed)
        self.depth = []
        d = 0
        for t in self.toks:
            if t.kind == "punct" and t.text in CLOSE:
                d -= 1
            self.depth.append(d)
            if t.kind == "punct" and t.text in OPEN:
                d += 1

    # ---- containers -------------------------------------------------------
    def containers(self, header):
        """All (open_idx, close_idx) of blocks whose header (tokens from the keyword up to
        the `{`, without a where clause) equals `header`, e.g. 'impl Foo', 'impl T for Foo',
        'trait T', 'mod tests'.  '-' = whole file."""
        if header == "-":
            return [(-1, len(self.toks))]
        want = norm(header)
        kw = want.split(" ")[0]
        out = []
        for i, t in enumerate(self.toks):
            if t.kind == "ident" and t.text == kw:
                # header runs to the first `{` or `;` at the same bracket depth
                j = i
                while j < len(self.toks):
                    tj = self.toks[j]
                    if tj.kind == "punct" and tj.text in ("(", "["):
                        j = self.match[j] + 1
                        continue
                    if tj.kind == "punct" and tj.text in ("{", ";"):
                        break
                    j += 1
                if j >= len(self.toks) or self.toks[j].text != "{":
                    continue
                hdr = [x.text for x in self.toks[i:j]]
                if "where" in hdr:
                    hdr = hdr[:hdr.index("where")]
                if " ".join(hdr) == want:
                    out.append((j, self.match[j]))
        return out

    # ---- items ------------------------------------------------------------
    def _item_start(self, k):
        """walk back from keyword index k over visibility / qualifiers / attributes."""
        i = k
        while i > 0:
            p = self.toks[i - 1]
            if p.kind == "ident" and p.text in ("pub", "const", "unsafe", "async", "extern", "default"):
                i -= 1
                continue
            if p.kind == "punct" and p.text == ")" and i - 1 in self.match:
                o = self.match[i - 1]
                if o > 0 and self.toks[o - 1].kind == "ident" and self.toks[o - 1].text == "pub":
                    i = o - 1
                    continue
            break
        first_code = i
        # attributes  #[...]  /  #![...]
        while i > 0:
            p = self.toks[i - 1]
            if p.kind == "punct" and p.text == "]" and i - 1 in self.match:
                o = self.match[i - 1]
                if o > 0 and self.toks[o - 1].text == "#":
                    i = o - 1
                    continue
                if o > 1 and self.toks[o - 1].text == "!" and self.toks[o - 2].text == "#":
                    break
            break
        return i, first_code

    def find_fn(self, container, name):
        """-> dict(attr_start, start, name_idx, body_open, body_close | semi) or None.
        Searches every block matching `container`, direct children only."""
        hits = []
        for (o, c) in self.containers(container):
            want_depth = 0 if o < 0 else self.depth[o] + 1
            i = o + 1
            while i < c:
                t = self.toks[i]
                if t.kind == "punct" and t.text == "{" and self.depth[i] >= want_depth:
                    i = self.match[i] + 1
                    continue
                if (t.kind == "ident" and t.text == "fn" and self.depth[i] == want_depth
                        and i + 1 < c and self.toks[i + 1].text == name):
                    # find body `{` or `;`
                    j = i + 2
                    while j < c:
                        tj = self.toks[j]
                        if tj.kind == "punct" and tj.text in ("(", "["):
                            j = self.match[j] + 1
                            continue
                        if tj.kind == "punct" and tj.text in ("{", ";"):
                            break
                        j += 1
                    a, s = self._item_start(i)
                    d = dict(attr_start=a, start=s, fn_idx=i, name_idx=i + 1)
                    if self.toks[j].text == "{":
                        d["body_open"], d["body_close"] = j, self.match[j]
                    else:
                        d["semi"] = j
                    hits.append(d)
                i += 1
        if len(hits) > 1:
            raise LookupError("ambiguous fn %s in %s (%d hits)" % (name, container, len(hits)))
        return hits[0] if hits else None

    def find_item(self, kind, name):
        """struct / enum / type / const / static / trait at any depth-0 position."""
        for i, t in enumerate(self.toks):
            if t.kind == "ident" and t.text == kind and self.depth[i] == 0 \
                    and i + 1 < len(self.toks) and self.toks[i + 1].text == name:
                j = i + 2
                while j < len(self.toks):
                    tj = self.toks[j]
                    if tj.kind == "punct" and tj.text in ("(", "["):
                        j = self.match[j] + 1
                        # tuple struct `struct A(u32);`
                        continue
                    if tj.kind == "punct" and tj.text == "{" and kind not in ("const", "static", "type"):
                        j = self.match[j]
                        break
                    if tj.kind == "punct" and tj.text == "{":
                        j = self.match[j] + 1
                        continue
                    if tj.kind == "punct" and tj.text == ";":
                        break
                    j += 1
                a, s = self._item_start(i)
                return dict(attr_start=a, start=s, kw_idx=i, end=j)
        return None

    def text_of(self, i, j):
        """source text from token i to token j inclusive (comments between them kept)."""
        return self.text[self.toks[i].start:self.toks[j].end]

    def find_token_seq(self, fragment, lo=0, hi=None):
        """indices (first, last) of every occurrence of the token sequence of `fragment`."""
        want = [t.text for t in sig(lex(fragment))]
        hi = len(self.toks) if hi is None else hi
        out = []
        if not want:
            return out
        n = len(want)
        i = lo

        def match_at(i):
            # identifiers written __w1, __w2, .. in the fragment stand for ANY identifier (bound consistently):
            # closure parameters and loop variables may be renamed without losing the anchor
            env = {}
            for k in range(n):
                w, t = want[k], self.toks[i + k]
                if w.startswith("__w") and w[3:].isdigit():
                    if t.kind != "ident":
                        return False
                    if env.setdefault(w, t.text) != t.text:
                        return False
                elif t.text != w:
                    return False
            return True
        while i + n <= hi:
            if match_at(i):
                out.append((i, i + n - 1))
                i += n
            else:
                i += 1
        return out
