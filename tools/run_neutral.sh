#!/bin/bash
cd /verif
declare -A P=( [1]="C07" [2]="C07" [3]="C07" [4]="C07" [5]="C10" [6]="C10 C07" [7]="C07" [8]="C07" [9]="C07" [10]="C07 C08" [11]="C08" [12]="C09" [13]="C16" [14]="C05" [15]="C14" [16]="C18" [17]="C07" [18]="C07 C17" [19]="C07" [20]="C07" [21]="C07" [22]="C07" [23]="C07" [24]="C07 C08" [25]="C07 C08" [26]="C08" [27]="C08" [28]="C09" [29]="C07" [30]="C07 C08" [31]="C08" [32]="C05" [33]="C05" [34]="C14" [35]="C15" [36]="C15" [37]="C08" [38]="C08" [39]="C09" [40]="C10 C07" [41]="C10" [42]="C07" [43]="C07" [44]="C07" [45]="C07" [46]="C08 C07" [47]="C07" [48]="C07 C08" [49]="C14" [50]="C15" [51]="C14" [52]="C05" [53]="C16" [54]="C18" [55]="C13" [56]="C13" [57]="C13" [58]="C13" [59]="C13" [60]="C20 C13" [61]="C20 C13" [62]="C20 C13" [63]="C20 C13" [64]="C13" [65]="C10 C20" [66]="C20" [67]="C20" [68]="C13 C14" [69]="C13 C14" [70]="C13" )
for k in $(seq ${NEU_FROM:-1} ${NEU_TO:-70}); do
  d=/tmp/neu_$k; rm -rf $d; mkdir -p $d; rsync -a --exclude target --exclude .git ${NEU_BASE:-/repo}/ $d/
  (cd $d && patch -p1 -s < /verif/neutral/N$k/patch.diff) || { echo "NEU $k APPLY-FAILED"; continue; }
  for p in ${P[$k]}; do
    out=$(VERIF_REPO=$d ./check $p 2>&1); rc=$?
    echo "NEU $k $p rc=$rc $(echo "$out" | grep -E '^VIOLATION|^UNDECIDED|  obligation' | head -3 | cut -c1-260 | tr '\n' ' ')"
  done
  rm -rf $d
done
