"""Run one Verus unit: generate (main + canary) from /repo, verify, map diagnostics to
named obligations.  Never decides 'violation' on anything but a verification failure of a
named obligation; everything else is 'undecided' (exit 2 at the check level)."""
import json
import os
import re
import shutil
import subprocess
import sys
import tempfile
import time

sys.path.insert(0, os.path.dirname(os.path.abspath(__file__)))
from vgen import Generator, LostAnchor, TemplateError  # noqa: E402
from rustlex import lex, sig, norm, match_brackets  # noqa: E402

VERIF = os.path.dirname(os.path.dirname(os.path.abspath(__file__)))

FAIL_PATTERNS = [
    (re.compile(r"postcondition not satisfied"), "post"),
    (re.compile(r"precondition not satisfied"), "pre"),
    (re.compile(r"assertion failed"), "assert"),
    (re.compile(r"invariant not satisfied before loop"), "inv-entry"),
    (re.compile(r"invariant not satisfied at end of loop body"), "inv-end"),
    (re.compile(r"invariant not satisfied"), "inv"),
    (re.compile(r"possible arithmetic underflow/overflow"), "overflow"),
    (re.compile(r"possible division by zero"), "divzero"),
    (re.compile(r"possible bit shift underflow/overflow"), "shift"),
    (re.compile(r"decreases not satisfied"), "decreases"),
    (re.compile(r"could not prove termination"), "decreases"),
    (re.compile(r"loop must have a decreases clause|must have a decreases"), "decreases-missing"),
    (re.compile(r"unreachable\(\) reached|reached unreachable|panic"), "panic"),
    (re.compile(r"constant evaluates to .* out of range|possible truncation"), "overflow"),
]
UNDECIDED_PATTERNS = [re.compile(r"[Rr]esource limit"), re.compile(r"rlimit"), re.compile(r"timed? ?out")]
IGNORE_PATTERNS = [re.compile(r"^aborting due to"), re.compile(r"^\d+ warnings? emitted")]


class Failure:
    def __init__(self, fn_id, kind, ident, message, rendered, spans):
        self.fn_id, self.kind, self.ident, self.message = fn_id, kind, ident, message
        self.rendered, self.spans = rendered, spans
        self.known = None

    def to_json(self):
        return dict(fn=self.fn_id, kind=self.kind, id=self.ident, message=self.message,
                    known=self.known)


class UnitResult:
    def __init__(self, name):
        self.name = name
        self.status = "ok"         # ok | failures | undecided
        self.undecided_reason = None
        self.failures = []         # Failure list (verification failures of named obligations)
        self.unit = None           # vgen.Unit (main)
        self.canary_total = 0
        self.canary_failed = 0
        self.canary_passed_ids = []
        self.verus_verified = 0
        self.verus_errors = 0
        self.fn_times = {}         # function -> (ms, rlimit, success)
        self.smt_ms = 0
        self.total_ms = 0
        self.wall_s = 0.0
        self.obligations = []      # list of dict(id, kind)
        self.lemmas = []
        self.cmd = ""
        self.limit_hit = None
        self.notes = []
        self.unproven = []      # (fn_id, text): assert!-family macros of the real code that were not proven; undecided, never a violation


def _run_verus(path, multiple_errors=10, timeout=900, rlimit=None, extra=None):
    cmd = ["verus", path, "--output-json", "--time", "--multiple-errors", str(multiple_errors),
           "--error-format=json"]
    if rlimit:
        cmd += ["--rlimit", str(rlimit)]
    if extra:
        cmd += list(extra)
    env = dict(os.environ)
    t0 = time.time()
    try:
        p = subprocess.run(cmd, stdout=subprocess.PIPE, stderr=subprocess.PIPE, timeout=timeout, env=env,
                           cwd=os.path.dirname(path))
    except subprocess.TimeoutExpired:
        return None, [], "timeout", time.time() - t0, cmd
    out = None
    try:
        out = json.loads(p.stdout.decode("utf-8", "replace"))
    except Exception:
        out = None
    diags = []
    raw = []
    for ln in p.stderr.decode("utf-8", "replace").split("\n"):
        s = ln.strip()
        if s.startswith("{"):
            try:
                diags.append(json.loads(s))
                continue
            except Exception:
                pass
        if s:
            raw.append(s)
    return out, diags, "\n".join(raw), time.time() - t0, cmd


def _classify(msg):
    for pat, kind in FAIL_PATTERNS:
        if pat.search(msg):
            return "fail", kind
    for pat in UNDECIDED_PATTERNS:
        if pat.search(msg):
            return "undecided", None
    for pat in IGNORE_PATTERNS:
        if pat.search(msg):
            return "ignore", None
    return "other", None


def _fn_region_of(unit, byte):
    best = None
    for r in unit.regions:
        if r.kind == "fn" and r.start is not None and r.start <= byte <= r.end:
            if best is None or (r.end - r.start) < (best.end - best.start):
                best = r
    return best


def _regions_at(unit, byte, kinds):
    return [r for r in unit.regions if r.kind in kinds and r.start is not None and r.start <= byte <= r.end]


def _span_text(data, sp):
    return data[sp["byte_start"]:sp["byte_end"]].decode("utf-8", "replace")


def _clean(txt):
    txt = re.sub(r"/\*@<?\d+>?\*/", " ", txt)
    try:
        return norm(txt)
    except Exception:
        return " ".join(txt.split())


def names_with_requires(text):
    """names of all fns in the unit text whose signature carries a `requires`."""
    toks = sig(lex(re.sub(r"/\*@<?\d+>?\*/", " ", text)))
    m = match_brackets(toks)
    names = set()
    i = 0
    while i < len(toks) - 1:
        if toks[i].kind == "ident" and toks[i].text == "fn" and toks[i + 1].kind == "ident":
            name = toks[i + 1].text
            j = i + 2
            has = False
            while j < len(toks):
                t = toks[j]
                if t.kind == "punct" and t.text in ("(", "["):
                    j = m[j] + 1
                    continue
                if t.kind == "punct" and t.text in ("{", ";"):
                    break
                if t.kind == "ident" and t.text == "requires":
                    has = True
                j += 1
            if has:
                names.add(name)
            i = j
        else:
            i += 1
    return names


def run_unit(name, repo="/repo", keep=None, rlimit=None, canary=True, confirm=None):
    res = UnitResult(name)
    t0 = time.time()
    tmpl = os.path.join(VERIF, "units", name + ".rs.tmpl")
    scratch = tempfile.mkdtemp(prefix="umya_verif_%s_" % name)
    try:
        try:
            main = Generator(repo, canary=False).generate(tmpl, name)
            can = Generator(repo, canary=True).generate(tmpl, name) if canary else None
        except LostAnchor as e:
            res.status, res.undecided_reason = "undecided", "lost anchor: %s" % e
            return res
        except TemplateError as e:
            res.status, res.undecided_reason = "undecided", "template error (machinery fault): %s" % e
            return res
        res.unit = main
        mp = os.path.join(scratch, "%s.rs" % name)
        cp = os.path.join(scratch, "%s_canary.rs" % name)
        open(mp, "w", encoding="utf-8").write(main.text)
        if can:
            open(cp, "w", encoding="utf-8").write(can.text)
        if keep:
            os.makedirs(keep, exist_ok=True)
            shutil.copy(mp, keep)
            if can:
                shutil.copy(cp, keep)
        from concurrent.futures import ThreadPoolExecutor
        with ThreadPoolExecutor(2) as ex:
            fm = ex.submit(_run_verus, mp, 12, 900, rlimit)
            fc = ex.submit(_run_verus, cp, 40, 900, rlimit) if can else None
            out, diags, raw, wall, cmd = fm.result()
            cres = fc.result() if fc else None
        res.cmd = " ".join(cmd).replace(mp, "<scratch>/%s.rs" % name)
        _digest_main(res, main, out, diags, raw)
        if res.limit_hit:
            _retry_limited(res, main, mp)
        if confirm is not None and res.failures and res.status == "failures":
            _confirm_isolated(res, main, mp, confirm)
        if can and res.status != "undecided":
            _digest_canary(res, can, *cres[:3])
        _count_obligations(res, main)
        return res
    finally:
        res.wall_s = time.time() - t0
        shutil.rmtree(scratch, ignore_errors=True)


def _macro_origin(unit, name, spans):
    """If a failing diagnostic's primary span lies outside the unit file (inside a std macro definition), follow the
    expansion chain back to the call site in the unit file. -> (fn_id, text) or None."""
    base = "%s.rs" % name
    for sp in sorted(spans, key=lambda s: not s.get("is_primary")):
        fnm = os.path.basename(sp.get("file_name", ""))
        if fnm == base or fnm == "%s_canary.rs" % name:
            return None
        chain = []
        e = sp.get("expansion")
        site = None
        while e:
            chain.append(e.get("macro_decl_name") or "?")
            s2 = e.get("span") or {}
            if os.path.basename(s2.get("file_name", "")) == base:
                site = s2
                break
            e = s2.get("expansion")
        fn_id = "<template>"
        txt = ""
        if site is not None:
            r0 = _fn_region_of(unit, site["byte_start"])
            if r0:
                fn_id = r0.fn_id
            txt = _clean(_span_text(unit.text.encode("utf-8"), site))[:140]
        return (fn_id, "%s in %s not proven to hold: %s" % (chain[-1] if chain else "macro", fn_id, txt))
    return None


def _digest_main(res, unit, out, diags, raw):
    data = unit.text.encode("utf-8")
    if raw == "timeout":
        res.status, res.undecided_reason = "undecided", "verus timeout"
        return
    if out is None:
        res.status, res.undecided_reason = "undecided", "verus produced no JSON (%s)" % raw[:300]
        return
    vr = out.get("verification-results", {})
    res.verus_verified = vr.get("verified", 0)
    res.verus_errors = vr.get("errors", 0)
    tm = out.get("times-ms", {})
    res.total_ms = tm.get("total", 0)
    smt = tm.get("smt", {})
    res.smt_ms = smt.get("smt-run", 0)
    for mod in smt.get("smt-run-module-times", []):
        for fb in mod.get("function-breakdown", []):
            res.fn_times[fb["function"]] = (fb.get("time", 0), fb.get("rlimit", 0), fb.get("success", False))
    others = []
    limit_hit = None
    for d in diags:
        if d.get("level") not in ("error",):
            continue
        msg = d.get("message", "")
        cls, kind = _classify(msg)
        if cls == "ignore":
            continue
        if cls == "undecided":
            limit_hit = "solver: %s" % msg
            continue
        if cls == "other":
            others.append(d)
            continue
        spans = d.get("spans", [])
        mac = _macro_origin(unit, res.name, spans)
        if mac is not None:
            # the failing obligation is the condition of an assert!/debug_assert!/panic!-family macro that the *real code*
            # contains (its span lies in the macro's definition, outside the unit file). "Not proven" is not "can fail":
            # such a check is usually true for reasons outside the contracts (e.g. lengths of std collections), so
            # this is reported as undecided for the enclosing function, never as a violation.
            res.unproven.append(mac)
            continue
        fn_r = None
        bodyless = set(f["id"] for f in unit.functions if not f["has_body"])
        cands = []
        for sp in sorted(spans, key=lambda s: not s.get("is_primary")):
            r0 = _fn_region_of(unit, sp["byte_start"])
            if r0:
                cands.append(r0)
        # a clause written on a trait declaration is attributed to the implementing function whose body failed it
        for r0 in cands:
            if r0.fn_id not in bodyless:
                fn_r = r0
                break
        if fn_r is None and cands:
            fn_r = cands[0]
        parts = []
        for sp in sorted(spans, key=lambda s: not s.get("is_primary")):
            lab = sp.get("label") or ""
            if "at the end of the function body" in lab or "at this exit" in lab or "function body" in lab:
                continue
            if os.path.basename(sp.get("file_name", "")) not in ("%s.rs" % res.name, "%s_canary.rs" % res.name):
                parts.append("<%s>" % (sp.get("label") or "clause in vstd"))     # a clause of a vstd specification (e.g. unwrap)
                continue
            parts.append(_clean(_span_text(data, sp))[:110])
        if fn_r is None:
            # a failing lemma / spec written in the template itself
            fn_id = "<template>"
        else:
            fn_id = fn_r.fn_id
        ident = "%s/%s/%s: %s" % (res.name, fn_id, kind, " @ ".join(parts))
        res.failures.append(Failure(fn_id, kind, ident, msg, d.get("rendered", ""), spans))
    # A function whose text no longer matches a splice of the template (an outline anchor, a proof-hint anchor or a named
    # loop header is gone) is verified WITHOUT that piece. Verus accepts some constructs silently without giving them a
    # meaning (format!, comparisons of str, ..) and a proof that lost its hints or invariants can fail although the fact is
    # true, so a failure inside such a function is "could not decide", never a violation.
    miss = {}
    for m in getattr(unit, "missing_outlines", []):
        fid, _, lab = m.partition("/")
        miss.setdefault(fid, []).append(lab)
    # the same for macros Verus accepts as opaque values (their result is unconstrained): a function that (still or newly)
    # contains one outside an outline cannot fail for a semantic reason we could name
    OPAQUE = re.compile(r"\b(format|write|writeln|format_args|concat)\s*!")
    for r in unit.regions:
        if r.kind == "fn" and r.start is not None and r.fn_id not in miss:
            body = re.sub(r"/\*@<?\d+>?\*/", "", data[r.start:r.end].decode("utf-8", "replace"))
            body = re.sub(r"//[^\n]*", "", body)
            mm = OPAQUE.search(body)
            if mm:
                miss[r.fn_id] = ["the body contains the macro %s!, which Verus accepts without giving its result a meaning" % mm.group(1)]
    if miss:
        keep = []
        for f in res.failures:
            if f.fn_id in miss:
                res.unproven.append((f.fn_id, "%s could not be decided: the text of %s no longer matches the template (%s), so it was verified "
                                     "without that contract piece" % (f.ident[:140], f.fn_id, "; ".join(miss[f.fn_id])[:160])))
            else:
                keep.append(f)
        res.failures = keep
    if others:
        d = others[0]
        res.status = "undecided"
        res.undecided_reason = "unsupported construct or compile error in the unit file: %s" % (
            (d.get("rendered") or d.get("message", ""))[:1200])
        return
    if vr.get("encountered-vir-error"):
        res.status, res.undecided_reason = "undecided", "verus VIR error: %s" % raw[:500]
        return
    res.limit_hit = limit_hit
    if res.failures:
        # a definite failure of a named obligation outranks a solver limit on another query
        res.status = "failures"
    elif limit_hit:
        res.status, res.undecided_reason = "undecided", limit_hit
    elif res.unproven:
        pass        # reported by the driver as undecided for the properties the enclosing function serves
    elif not vr.get("success", (not vr.get("is-verifying-entire-crate", True)) and vr.get("errors", 0) == 0
                    and not vr.get("encountered-error") and vr.get("verified", 0) >= 1):
        # (partial runs with --verify-function carry no "success" key: judged by errors == 0 and verified >= 1)
        res.status, res.undecided_reason = "undecided", "verus reported failure without a diagnostic: %s" % raw[:500]


def _retry_limited(res, unit, mp):
    """A query hit the solver limit in the whole-file run (one Z3 process for all functions is less stable).
    Re-run every function that got no verdict on its own, with a larger budget; merge definite verdicts."""
    pending = [fn for fn, (ms, rl, ok) in res.fn_times.items() if not ok]
    still = []
    seen = set(f.ident for f in res.failures)
    for fn in pending[:8]:
        pat = fn.split("::", 1)[1] if "::" in fn else fn
        cmd = ["verus", mp, "--output-json", "--time", "--multiple-errors", "12", "--error-format=json",
               "--rlimit", "80", "--verify-root", "--verify-function", pat]
        try:
            p = subprocess.run(cmd, stdout=subprocess.PIPE, stderr=subprocess.PIPE, timeout=600, cwd=os.path.dirname(mp))
        except subprocess.TimeoutExpired:
            still.append(pat)
            continue
        diags = []
        for ln in p.stderr.decode("utf-8", "replace").split("\n"):
            ln = ln.strip()
            if ln.startswith("{"):
                try:
                    diags.append(json.loads(ln))
                except Exception:
                    pass
        try:
            out = json.loads(p.stdout.decode("utf-8", "replace"))
        except Exception:
            still.append(pat)
            continue
        sub = UnitResult(res.name)
        _digest_main(sub, unit, out, diags, "")
        if sub.status == "undecided" or sub.limit_hit:
            still.append(pat)
        for f in sub.failures:
            if f.ident not in seen:
                seen.add(f.ident)
                res.failures.append(f)
    if res.failures:
        res.status = "failures"
    if still:
        res.limit_hit = "solver limit also when verified alone with a larger budget: %s" % ", ".join(still)
        if not res.failures:
            res.status, res.undecided_reason = "undecided", res.limit_hit
    else:
        res.limit_hit = None
        if not res.failures:
            res.status, res.undecided_reason = "ok", None


def _confirm_isolated(res, unit, mp, wants):
    """Solver instability guard. In the whole-file run all functions share one Z3 process; after a failing query a later
    function can (rarely) fail for no semantic reason. Every failure that would be REPORTED (wants(f)) is therefore
    re-checked with its function verified alone. A function that verifies alone is proved (a proof is a proof), so its
    whole-file failures are dropped and noted; a failure that reproduces, or cannot be re-checked, stands."""
    by_fn = {}
    for f in res.failures:
        if f.fn_id != "<template>" and wants(f):
            by_fn.setdefault(f.fn_id, []).append(f)
    if not by_fn or len(by_fn) > 8:
        return
    for fn_id, fails in by_fn.items():
        bare = fn_id.split("::")[-1]
        typ = fn_id.split("::")[-2].split(":")[-1] if "::" in fn_id and not fn_id.startswith(("xlsx::", "csv::")) else None
        cands = []
        for key in res.fn_times:
            segs = key.split("::")
            if segs[-1] != bare:
                continue
            if typ is not None and (len(segs) < 2 or segs[-2] != typ):
                continue
            cands.append(segs[1:])
        if len(cands) != 1:
            continue
        segs = cands[0]
        attempts = [["--verify-root", "--verify-function", "::".join(segs)]]
        if len(segs) >= 2:
            attempts.append(["--verify-module", segs[0], "--verify-function", "::".join(segs[1:])])
        for extra in attempts:
            out, diags, raw, wall, cmd = _run_verus(mp, 12, 600, 40, extra)
            if out is None:
                continue
            vr = out.get("verification-results", {})
            if vr.get("verified", 0) + vr.get("errors", 0) == 0:
                continue            # pattern matched nothing in this module
            sub = UnitResult(res.name)
            _digest_main(sub, unit, out, diags, raw)
            clean = (not sub.failures and not sub.limit_hit and not sub.unproven and not vr.get("encountered-error")
                     and not vr.get("encountered-vir-error"))
            if clean and vr.get("errors", 0) == 0 and vr.get("verified", 0) >= 1:
                for f in fails:
                    res.failures.remove(f)
                    res.notes.append("obligation %s failed in the whole-file run but %s verifies when checked alone "
                                     "(solver instability in the shared Z3 process); counted as discharged" % (f.ident[:160], fn_id))
            break
    if not res.failures:
        res.status = "ok" if not res.limit_hit else "undecided"
        if res.limit_hit:
            res.undecided_reason = res.limit_hit


def _digest_canary(res, can, out, diags, raw):
    if out is None or raw == "timeout":
        res.status, res.undecided_reason = "undecided", "canary run produced no result (%s)" % str(raw)[:200]
        return
    hit = set()
    for d in diags:
        if d.get("level") != "error":
            continue
        cls, kind = _classify(d.get("message", ""))
        if cls == "other":
            res.status = "undecided"
            res.undecided_reason = "canary file does not compile: %s" % (d.get("rendered") or d.get("message"))[:600]
            return
        for sp in d.get("spans", []):
            for k in can.canaries:
                r = can.regions[k]
                if r.start is not None and r.start <= sp["byte_start"] <= r.end:
                    hit.add(k)
    res.canary_total = len(can.canaries)
    res.canary_failed = len(hit)
    for k in can.canaries:
        if k not in hit:
            r = can.regions[k]
            res.canary_passed_ids.append("%s/%s/canary@%s" % (res.name, r.fn_id, r.detail))
    # a canary that passes in a function whose main obligations fail is not meaningful; but a
    # canary that passes where the main run is clean means vacuity -> machinery fault
    failed_fns = set(f.fn_id for f in res.failures)
    real = [c for c in res.canary_passed_ids if c.split("/")[1] not in failed_fns]
    if real:
        res.status = "undecided"
        res.undecided_reason = "vacuity guard: canary did not fail: %s" % ", ".join(real[:5])


def _count_obligations(res, unit):
    req = names_with_requires(unit.text) | {"unwrap", "expect"}
    obl = []
    for f in unit.functions:
        if not f["has_body"]:
            continue
        c = f["counts"]
        fid = f["id"]
        for cl in f["clauses"]:
            if cl.startswith("requires"):
                continue
            if " invariant " in " " + cl + " " and cl.startswith("loop#"):
                obl.append(dict(id="%s/%s/inv-entry: %s" % (res.name, fid, cl[:100]), kind="inv-entry"))
                obl.append(dict(id="%s/%s/inv-end: %s" % (res.name, fid, cl[:100]), kind="inv-end"))
            elif cl.startswith("ensures"):
                obl.append(dict(id="%s/%s/post: %s" % (res.name, fid, cl[:100]), kind="post"))
            elif "decreases" in cl:
                obl.append(dict(id="%s/%s/decreases: %s" % (res.name, fid, cl[:100]), kind="decreases"))
        for i in range(c["asserts"]):
            obl.append(dict(id="%s/%s/assert#%d" % (res.name, fid, i + 1), kind="assert"))
        ncall = {}
        for cn in f["calls"]:
            if cn in req:
                ncall[cn] = ncall.get(cn, 0) + 1
                obl.append(dict(id="%s/%s/pre: %s#%d" % (res.name, fid, cn, ncall[cn]), kind="pre"))
        obl.append(dict(id="%s/%s/body-safety (overflow, bounds, unwrap, termination)" % (res.name, fid),
                        kind="safety"))
    # lemmas / proof fns written in the template: one obligation each (verus function-breakdown)
    fn_names = set(f["name"] for f in unit.functions)
    for full, (ms, rl, ok) in res.fn_times.items():
        short = full.split("::")[-1]
        if short not in fn_names:
            res.lemmas.append(full)
            obl.append(dict(id="%s/lemma %s" % (res.name, "::".join(full.split("::")[1:])), kind="lemma"))
    res.obligations = obl


if __name__ == "__main__":
    import argparse
    ap = argparse.ArgumentParser()
    ap.add_argument("unit")
    ap.add_argument("--repo", default="/repo")
    ap.add_argument("--keep")
    ap.add_argument("--no-canary", action="store_true")
    a = ap.parse_args()
    r = run_unit(a.unit, a.repo, keep=a.keep, canary=not a.no_canary)
    print("unit %s: %s %s" % (r.name, r.status, r.undecided_reason or ""))
    print("  verus verified=%d errors=%d  canaries %d/%d failed as they must  obligations=%d  wall=%.1fs smt=%dms" % (
        r.verus_verified, r.verus_errors, r.canary_failed, r.canary_total, len(r.obligations), r.wall_s, r.smt_ms))
    for f in r.failures:
        print("  FAIL", f.ident)
        if os.environ.get("VERBOSE"):
            print(f.rendered)
    if r.unit:
        for e in r.unit.extraction:
            print("  extraction:", e)
