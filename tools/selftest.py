"""Mutation self-test of a Verus unit: apply each small edit of units/<unit>.mutants.json to a
scratch copy of /repo/src, re-run extraction+verification there, compare with the expectation
('violation' = some obligation must fail, 'pass' = a neutral edit must stay green)."""
import json, os, shutil, subprocess, sys, tempfile
sys.path.insert(0, os.path.dirname(os.path.abspath(__file__)))
import runner

V = os.path.dirname(os.path.dirname(os.path.abspath(__file__)))
BASE = {}


def run(unit, repo="/repo", verbose=True, summary=None):
    p = os.path.join(V, "units", unit + ".mutants.json")
    if not os.path.exists(p):
        print("no mutants for", unit)
        return 0
    muts = json.load(open(p))
    r0 = runner.run_unit(unit, repo, canary=False)
    BASE[unit] = set(f.ident for f in r0.failures)
    bad = 0
    killed = neutral_ok = 0
    from concurrent.futures import ThreadPoolExecutor

    def one(m):
        scratch = tempfile.mkdtemp(prefix="umya_verif_mut_")
        try:
            shutil.copytree(os.path.join(repo, "src"), os.path.join(scratch, "src"))
            fp = os.path.join(scratch, m["file"])
            s = open(fp).read()
            if s.count(m["find"]) != m.get("count", 1):
                return m, "bad-mutant", "find text occurs %d times" % s.count(m["find"])
            s = s.replace(m["find"], m["replace"])
            open(fp, "w").write(s)
            r = runner.run_unit(unit, scratch, canary=False)
            base = BASE.get(unit)
            if r.status == "failures" and base is not None and set(f.ident for f in r.failures) <= base:
                m["_only_known"] = True
            if r.unproven and (r.status == "ok" or (r.status == "failures" and base is not None and set(f.ident for f in r.failures) <= base)):
                # the driver reports these as undecided (exit 2): missing-splice / opaque-macro rule
                return m, "undecided", "; ".join(t for _, t in r.unproven)[:300]
            return m, r.status, (r.undecided_reason or "") + " ".join(f.ident[:150] for f in r.failures if base is None or f.ident not in base)[:400]
        finally:
            shutil.rmtree(scratch, ignore_errors=True)

    with ThreadPoolExecutor(6) as ex:
        for m, status, info in ex.map(one, muts):
            exp = m["expect"]
            # the tree has known findings: a unit "passes" when its only failures are listed findings
            if status == "failures" and m.get("_only_known"):
                status = "ok"
            ok = (exp == "violation" and status == "failures") or (exp == "pass" and status == "ok") or (exp == "undecided" and status == "undecided")
            if ok and exp == "violation":
                killed += 1
            if ok and exp == "pass":
                neutral_ok += 1
            if not ok:
                bad += 1
            if verbose:
                print("%-4s %-45s expect=%-9s got=%-10s %s" % ("ok" if ok else "BAD", m["name"], exp, status, info[:220]))
    print("selftest %s: %d killed, %d neutral passed, %d unexpected" % (unit, killed, neutral_ok, bad))
    if summary is not None:
        summary.update(dict(unit=unit, mutants=len(muts), killed=killed, neutral_passed=neutral_ok, unexpected=bad))
    return 0 if bad == 0 else 1


if __name__ == "__main__":
    sys.exit(run(sys.argv[1]))
