#!/usr/bin/env python3
"""seeded/RESULTS.json + meta.json -> seeded/RESULTS.md (which check catches which seeded change)"""
import json, os, glob, re
V = os.path.dirname(os.path.dirname(os.path.abspath(__file__)))
res = json.load(open(os.path.join(V, "seeded", "RESULTS.json")))
rows = []
cnt = {}
for d in sorted(glob.glob(os.path.join(V, "seeded", "[STUVWXYZ]*_*"))):
    m = json.load(open(os.path.join(d, "meta.json")))
    r = res.get(m["id"], {})
    verdict = r.get("verdict", "not run")
    cnt[verdict.split(":")[0]] = cnt.get(verdict.split(":")[0], 0) + 1
    what = ""
    notes = open(os.path.join(d, "notes.txt")).read()
    diff = open(os.path.join(d, "patch.diff")).read()
    files = sorted(set(re.findall(r"^\+\+\+ b/(\S+)", diff, re.M)))
    ob = ""
    for pr, x in (r.get("detail") or {}).items():
        if isinstance(x, dict):
            for l in x.get("lines", []):
                if l.strip().startswith("obligation:") and not ob:
                    ob = l.strip()[len("obligation:"):].strip()[:150]
                if l.startswith("UNDECIDED") and not ob:
                    ob = re.sub(r"^UNDECIDED property=\S+ ", "", l)[:150]
    rows.append((m["id"], ",".join(m["breaks"]), ", ".join(files), verdict, ob.replace("|", "\\|")))
with open(os.path.join(V, "seeded", "RESULTS.md"), "w") as fh:
    fh.write("# Seeded changes vs checks\n\nEvery change compiles, passes the 95 baseline tests and has a demonstration that fails with it and passes without it (confirmed independently, see each meta.json / confirm.txt).\n\n")
    fh.write("Totals: " + ", ".join("%s: %d" % kv for kv in sorted(cnt.items())) + "\n\n")
    fh.write("| id | breaks | files touched | verdict of the checks | failing obligation / reason |\n|---|---|---|---|---|\n")
    for r in rows:
        fh.write("| %s | %s | %s | %s | %s |\n" % r)
print(cnt)
