#!/usr/bin/env python3
"""regenerates section 11 of DESIGN.md from seeded/RESULTS.json, seeded/*/meta.json and neutral/RESULTS.txt"""
import json, os, glob, re
V = os.path.dirname(os.path.dirname(os.path.abspath(__file__)))
res = json.load(open(os.path.join(V, "seeded", "RESULTS.json")))
rows = []
cnt = {}
for d in sorted(glob.glob(os.path.join(V, "seeded", "[STUVWXYZ]*_*"))):
    m = json.load(open(os.path.join(d, "meta.json")))
    r = res.get(m["id"], {})
    verdict = r.get("verdict", "not run")
    cnt[verdict] = cnt.get(verdict, 0) + 1
    diff = open(os.path.join(d, "patch.diff")).read()
    files = sorted(set(os.path.basename(x) for x in re.findall(r"^\+\+\+ b/(\S+)", diff, re.M)))
    ob = ""
    for pr, x in (r.get("detail") or {}).items():
        if isinstance(x, dict):
            for l in x.get("lines", []):
                if l.strip().startswith("obligation:") and not ob:
                    ob = l.strip()[len("obligation:"):].strip()
                    ob = ob.split(": ", 1)[0] if ": " in ob else ob
                if l.startswith("UNDECIDED") and not ob:
                    t = re.sub(r"^UNDECIDED property=\S+ \S+ ", "", l)
                    t = t.replace("unsupported construct or compile error in the unit file: ", "")
                    ob = "exit 2: " + t[:90]
    first = open(os.path.join(d, "notes.txt")).read().strip().split("\n")
    what = ""
    for ln in first:
        ln = ln.strip(" -*#")
        if len(ln) > 25 and not ln.lower().startswith(("property", "patch", "k =", "change")):
            what = ln[:140]
            break
    rows.append("| %s | %s | %s | %s | %s | `%s` |" % (m["id"], ",".join(m["breaks"]), ", ".join(files), what.replace("|", "/"), verdict.replace(" (exit 2)", ""), ob.replace("|", "\\|")[:120]))
txt = "%d breaking changes were written by independent sub-agents that saw only the text of a property and a scratch worktree of /repo (nothing from /verif), in eight rounds (`S*` against the tree before the repairs, `T*` against 346b94f, `U3*` - two cooperating sites / multi-step sequences - and `V4*` - one-line slips - against 53178b9, `W5*` for C20, `X6*` for C13 `Y7*` for the serial -> date direction of C18 (thorough tier) and `Z8*` for the lookup / remove / bulk-remove functions of the cell store (C10) against d243e00)." % len(rows) + " Each was confirmed independently (`tools/confirm_seed.sh`: applies, compiles, the 95 baseline tests pass, the demo fails with it and passes without it) and is kept under `seeded/<id>/` (patch, demo, notes, confirm log, meta). `tools/seed_matrix.py` applies each to /repo, runs the checks of the properties it breaks and undoes it.\n\n"
txt += "**Result: %s.** No seeded change is accepted as holding (exit 0). The undecided ones left the subset the verifier can read (array-of-&mut iteration, iterator-chain rewrites, `continue` inside `for`, a call to a function the unit does not contain, a newly extracted helper): the check says exit 2 'unsupported construct', never 'holds'.\n\n" % ", ".join("%d %s" % (v, k) for k, v in sorted(cnt.items()))
txt += "| id | breaks | file(s) | what the change does | verdict | failing obligation / reason |\n|---|---|---|---|---|---|\n" + "\n".join(rows) + "\n\n"
nt = os.path.join(V, "neutral", "RESULTS.txt")
if os.path.exists(nt):
    last = {}
    for l in open(nt):
        m = re.search(r"NEU (\d+) (C\d\d) rc=(\d)", l)
        if m:
            last[(int(m.group(1)), m.group(2))] = m.group(3)      # the latest run of a (refactoring, property) pair counts
    rc = {}
    for v in last.values():
        rc[v] = rc.get(v, 0) + 1
    txt += "**False-alarm test.** %d behaviour-preserving refactorings (`neutral/N*/`: renamed locals, reordered independent statements, `match` vs `if let`, hoisted expressions, early return vs if/else, loops rewritten, added `debug_assert!`s, extracted helpers, ...) were written by independent sub-agents over the verified functions in five batches and run through the same checks (`tools/run_neutral.sh`; `neutral/RESULTS.txt` keeps every run, the latest run of each pair counts): %s. " % (
        len(set(k[0] for k in last)), ", ".join("%s runs exit %s" % (v, k) for k, v in sorted(rc.items())))
    txt += ("This test produced **four kinds of false alarm** (exit 1 on code where the property holds), every one repaired in the machinery and never by loosening a contract: "
            "(1) N15: a loop bound hoisted into a local made the `decreases` clause of `crypt_package` unprovable (extracted functions are since verified with loop isolation off); "
            "(2) N36: an explicit `value.into()` before a generic setter could not be related to the contract's `sp_into` (now defined through vstd's `IntoSpec`); "
            "(3) N40/N42/N43: added `debug_assert!`s about std collections that Verus cannot prove were reported as violations (a failing obligation whose span lies in a std macro is now *undecided*, section 2.4); "
            "(4) N60: two option getters hoisted out of the CSV loops left a `!= \"\"` test and a `format!` outside their outlines - Verus accepts both silently without giving them a meaning, the field assertion failed (a failure in a function that no longer matches its template, or that contains such an opaque macro, is now *undecided*, section 2.4). "
            "Besides, outline anchors accept renamed closure parameters, `Cells::add/remove` verify without proof hints, loops are found by their header rather than their ordinal, and every reported failure is re-verified with its function alone (solver-instability guard). Exit 2 remains the answer when a refactoring rewrites an outlined statement. **One open case (recorded, not repaired):** a new early-exit *optimisation* of `Cells::adjustment_remove_coordinate` with the correct bound (`max < root`, the repaired form of seed Z8_2) is reported as a failed postcondition (exit 1, `no-failing-input-found`): the shortcut is right only because of the representation invariant `wf` and the index-maximum facts, an argument the existing proof does not contain and Verus does not find unprompted. A failed obligation without a counterexample means *the proof did not go through*; for a change that adds a new reason for correctness (rather than rearranging the existing one) the contract author has to add the lemma - the check cannot tell the two apart.\n")
s = open(os.path.join(V, "DESIGN.md")).read()
i = s.index("<!--SEEDED-BEGIN-->") + len("<!--SEEDED-BEGIN-->")
j = s.index("<!--SEEDED-END-->")
s = s[:i] + "\n" + txt + s[j:]
open(os.path.join(V, "DESIGN.md"), "w").write(s)
print(cnt)
