#!/usr/bin/env python3
"""writes MANIFEST.json from units/INDEX.json + the fixed not_applicable table."""
import json, os
V = os.path.dirname(os.path.dirname(os.path.abspath(__file__)))
idx = json.load(open(V + "/units/INDEX.json"))
NA = json.load(open(V + "/units/NOT_APPLICABLE.json"))
checks = []
for pid in sorted(idx):
    c = idx[pid]
    checks.append(dict(
        property_id=pid,
        quick_cmd="./check %s --tier quick" % pid,
        thorough_cmd="./check %s --tier thorough" % pid,
        evidence_file="/verif/evidence/%s.json" % pid,
        replay_cmd_template="./check --replay {path}",
        engine="contracts",
        level_claimed=dict(category="proof", text=c["level_text"], design_ref=c.get("design_ref", "DESIGN.md section 4")),
        level_note=c["level_note"],
        technique=c["technique"],
    ))
na = [dict(property_id=k, reason=v) for k, v in sorted(NA.items()) if k not in idx]
m = dict(
    version=1,
    setup_cmd="./tools/setup.sh",
    hooks=dict(guard="kani", enable="none needed: Verus works on text extracted from /repo on every run; Kani on a scratch copy of /repo into which contracts and harnesses are spliced under #[cfg(kani)]",
               baseline_off_cmd="cd /repo && cargo test --workspace --no-fail-fast --offline", source_commits=[], add_only=True),
    engines=[dict(name="contracts", path="/verif/check", serves_properties=sorted(idx),
                  kind_free_text="contract-based deductive verification: Verus on functions extracted verbatim from /repo each run (tools/vgen.py), Kani/CBMC proof harnesses on a scratch copy for finite-domain functions and counterexamples")],
    checks=checks,
    notes="exit 0 holds / exit 1 VIOLATION / exit 2 undecided (lost anchor, unsupported construct, solver limit, vacuity guard) - never an alarm. See DESIGN.md. "
          "No hook commits. Unguarded `fix:` commits in /repo (genuine defects, known_findings.txt has the `fixed:` lines): 4e402dc (F3), 3004d0a (F2), c0c6a9f (F5), ce9f872 (F6 edge), 346b94f (F9), f1e4d97 (F12), d243e00 (F13); f8988d7 (F7) was withdrawn by 53178b9.",
    not_applicable=na,
)
json.dump(m, open(V + "/MANIFEST.json", "w"), indent=1)
print("MANIFEST.json: %d checks, %d not_applicable" % (len(checks), len(na)))
