"""Unit generator: template + real functions extracted verbatim from /repo -> one verus file.

Template = ordinary Verus text (prelude, ghost spec fns, lemmas, stubs for the code that is
left unverified) with directive lines starting with `//@`.  The directives pull real items
out of the current /repo working tree and splice *ghost text only* into them.

  //@fn <file> | <container> | <name> [| ret=<n>] [| id=<id>] [| nocanary]
  //@spec                      raw lines: requires/ensures/decreases (before the body `{`)
  //@loop <n> [<binder>]       raw lines: invariant/decreases for the n-th loop keyword
  //@at <anchor>               raw lines inserted at a structural anchor:
                                 fn:start | fn:end | loop:N:before|body_start|body_end|after
                                 call:NAME#k:before|after
  //@at before: <tokens>       raw lines inserted before / after a token sequence
  //@at after: <tokens>
  //@outline <label>           statement replaced by a call of an external_body stub
  //@anchor                      raw lines: the exact token text expected in the real body
  //@with                        raw lines: replacement text
  //@rewrite <label>           same mechanics; recorded as a declaration-form rewrite
  //@endfn
  //@item <file> | <kind> <name> [| derive=A,B] [| as=<text replacing nothing>]
  //@assume_anchor <file> | <label>    raw lines: token text that must still be in <file>
  //@end

Every use of outline / rewrite / dropped attribute is recorded in the unit's metadata.
Errors: LostAnchor (item, loop, call or text not found) -> the caller exits 2.
"""
import hashlib
import os
import re
import sys

sys.path.insert(0, os.path.dirname(os.path.abspath(__file__)))
from rustlex import SourceFile, lex, sig, norm, match_brackets, LexError  # noqa: E402


class LostAnchor(Exception):
    pass


class TemplateError(Exception):
    pass


LOOP_KW = ("for", "while", "loop")


def split_clauses(text):
    """split 'requires a, b, ensures c, decreases d' into [(section, clause_text)]."""
    toks = sig(lex(text))
    out = []
    section = None
    depth = 0
    in_bar = False
    cur = []

    def flush():
        if cur and section:
            out.append((section, " ".join(t.text for t in cur)))
        del cur[:]

    i = 0
    while i < len(toks):
        t = toks[i]
        if depth == 0 and not in_bar and t.kind == "ident" and t.text in (
                "requires", "ensures", "decreases", "invariant", "invariant_except_break", "recommends",
                "opens_invariants", "no_unwind"):
            flush()
            section = t.text
            i += 1
            continue
        if t.kind == "punct" and t.text in ("(", "[", "{"):
            depth += 1
        elif t.kind == "punct" and t.text in (")", "]", "}"):
            depth -= 1
        elif t.kind == "punct" and t.text == "|" and depth >= 0:
            # closure-style binder after forall / exists / choose, or a closure |x| ..
            prev = toks[i - 1].text if i else ""
            if in_bar:
                in_bar = False
            elif prev in ("forall", "exists", "choose", "(", ",", "=", "==>", "&&", "||", "implies") or \
                    (i and toks[i - 1].kind == "ident" and toks[i - 1].text in ("forall", "exists", "choose")):
                in_bar = True
        elif t.kind == "punct" and t.text == "||" and i and toks[i - 1].text in ("forall", "exists"):
            pass
        if depth == 0 and not in_bar and t.kind == "punct" and t.text == ",":
            flush()
            i += 1
            continue
        cur.append(t)
        i += 1
    flush()
    return out


class FnSplice:
    def __init__(self, file, container, name, opts, lineno):
        self.file, self.container, self.name = file, container, name
        self.opts = opts
        self.lineno = lineno
        self.spec = None
        self.loops = {}      # n -> (binder, text)
        self.loop_headers = {}   # n -> header token text (the loop is found by its header, not by its ordinal)
        self.ats = []        # (anchor, text)
        self.outlines = []   # (kind, label, anchor_text, with_text)
        self.id = opts.get("id") or ((container.replace("impl ", "").replace(" for ", ":") + "::" if container != "-" else "") + name)


class Region:
    def __init__(self, kind, fn_id, detail, text=""):
        self.kind, self.fn_id, self.detail, self.text = kind, fn_id, detail, text
        self.start = self.end = None


class Unit:
    """result of generating one unit file."""

    def __init__(self, name):
        self.name = name
        self.text = ""
        self.regions = []         # Region list (index = marker number)
        self.functions = []       # dict(id,file,container,name,sha1,loops,...)
        self.extraction = []      # strings: what extraction dropped / outlined / rewrote
        self.items = []
        self.assumption_anchors = []
        self.missing_outlines = []
        self.canaries = []        # region indexes that are canaries (canary mode only)
        self.serves = []


def parse_kv(parts):
    d = {}
    for p in parts:
        p = p.strip()
        if not p:
            continue
        if "=" in p:
            k, v = p.split("=", 1)
            d[k.strip()] = v.strip()
        else:
            d[p] = True
    return d


class Generator:
    def __init__(self, repo, canary=False):
        self.repo = repo
        self.canary = canary
        self._files = {}

    def src(self, rel):
        if rel not in self._files:
            p = os.path.join(self.repo, rel)
            if not os.path.exists(p):
                raise LostAnchor("file %s no longer exists" % rel)
            try:
                self._files[rel] = SourceFile(rel, open(p, encoding="utf-8").read())
            except LexError as e:
                raise LostAnchor("cannot lex %s: %s" % (rel, e))
        return self._files[rel]

    def _read_with_includes(self, path, depth):
        if depth > 8:
            raise TemplateError("include depth")
        out = []
        for ln in open(path, encoding="utf-8").read().split("\n"):
            s = ln.strip()
            if s.startswith("//@include "):
                inc = os.path.join(os.path.dirname(os.path.abspath(path)), s[len("//@include "):].strip())
                out += self._read_with_includes(inc, depth + 1)
            else:
                out.append(ln)
        return out

    # ------------------------------------------------------------------
    def generate(self, template_path, unit_name):
        u = Unit(unit_name)
        lines = self._read_with_includes(template_path, 0)
        out = []
        i = 0
        cur_fn = None
        cur_sink = None   # list to which raw lines go
        mode = None
        pending = None

        def close_sink():
            nonlocal cur_sink
            cur_sink = None

        while i < len(lines):
            ln = lines[i]
            s = ln.strip()
            if s.startswith("//@"):
                d = s[3:].strip()
                word = d.split(None, 1)[0] if d else ""
                rest = d[len(word):].strip()
                if word == "unit":
                    kv = parse_kv(rest.split("|"))
                    u.serves = [x for x in kv.get("serves", "").split(",") if x]
                elif word == "fn":
                    parts = [p.strip() for p in rest.split("|")]
                    if len(parts) < 3:
                        raise TemplateError("line %d: //@fn needs file | container | name" % (i + 1))
                    cur_fn = FnSplice(parts[0], parts[1], parts[2], parse_kv(parts[3:]), i + 1)
                    close_sink()
                elif word == "spec":
                    buf = []
                    cur_fn.spec = buf
                    cur_sink = buf
                elif word == "loop":
                    hdr = None
                    if "|" in rest:
                        rest, hdr = rest.split("|", 1)
                        hdr = hdr.strip()
                    ps = rest.split()
                    n = int(ps[0])
                    binder = ps[1] if len(ps) > 1 else None
                    buf = []
                    cur_fn.loops[n] = (binder, buf)
                    if hdr:
                        cur_fn.loop_headers[n] = hdr
                    cur_sink = buf
                elif word == "at":
                    buf = []
                    cur_fn.ats.append((rest, buf))
                    cur_sink = buf
                elif word in ("outline", "rewrite"):
                    pending = [word, rest, [], []]
                    cur_fn.outlines.append(pending)
                    close_sink()
                elif word == "anchor":
                    cur_sink = pending[2]
                elif word == "with":
                    cur_sink = pending[3]
                elif word == "endfn":
                    out.append(self.emit_fn(u, cur_fn))
                    cur_fn = None
                    close_sink()
                elif word == "item":
                    parts = [p.strip() for p in rest.split("|")]
                    out.append(self.emit_item(u, parts[0], parts[1], parse_kv(parts[2:])))
                elif word == "const_bytes":
                    parts = [p.strip() for p in rest.split("|")]
                    out.append(self.emit_const_bytes(u, parts[0], parts[1]))
                elif word == "assume_anchor":
                    parts = [p.strip() for p in rest.split("|")]
                    buf = []
                    cur_sink = buf
                    mode = ("assume_anchor", parts[0], parts[1] if len(parts) > 1 else "", buf,
                            parse_kv(parts[2:]))
                elif word == "end":
                    if mode and mode[0] == "assume_anchor":
                        self.check_assumption(u, mode[1], mode[2], "\n".join(mode[3]), mode[4])
                    mode = None
                    close_sink()
                elif word == "#":
                    pass
                else:
                    raise TemplateError("line %d: unknown directive %s" % (i + 1, word))
            else:
                if cur_sink is not None:
                    cur_sink.append(ln)
                elif cur_fn is not None:
                    if s:
                        raise TemplateError("line %d: text inside //@fn outside a section" % (i + 1))
                else:
                    out.append(ln)
            i += 1
        if cur_fn is not None:
            raise TemplateError("unterminated //@fn %s" % cur_fn.name)
        text = "\n".join(out)
        if self.canary:
            text = text.replace("verus! {", "verus! {\npub uninterp spec fn __canary(k: int) -> bool;\n", 1)
        # resolve markers -> byte offsets (diagnostics use byte offsets of the utf-8 file)
        u.text = self._resolve_markers(u, text)
        return u

    def _resolve_markers(self, u, text):
        # markers: /*@<k*/ and /*@k>*/ ; compute offsets in the text *with markers kept*
        # (they are comments, harmless), so no shifting is needed.
        b = text.encode("utf-8")
        for m in re.finditer(rb"/\*@<(\d+)\*/", b):
            u.regions[int(m.group(1))].start = m.end()
        for m in re.finditer(rb"/\*@(\d+)>\*/", b):
            u.regions[int(m.group(1))].end = m.start()
        return text

    def _region(self, u, kind, fn_id, detail, text):
        r = Region(kind, fn_id, detail, text)
        u.regions.append(r)
        k = len(u.regions) - 1
        return k, "/*@<%d*/%s/*@%d>*/" % (k, text, k)

    # ------------------------------------------------------------------
    def check_assumption(self, u, rel, label, text, kv):
        if rel.endswith("/**"):
            # every .rs file below the directory: total number of occurrences
            hits = []
            root = os.path.join(self.repo, rel[:-3])
            for dp, dn, fn in sorted(os.walk(root)):
                for f in sorted(fn):
                    if f.endswith(".rs"):
                        r = os.path.relpath(os.path.join(dp, f), self.repo)
                        hits += [(r,) + h for h in self.src(r).find_token_seq(text)]
        else:
            sf = self.src(rel)
            hits = sf.find_token_seq(text)
        want = kv.get("count")
        if want is not None:
            if len(hits) != int(want):
                raise LostAnchor("assumption anchor '%s' in %s: expected %s occurrence(s), found %d" % (
                    label, rel, want, len(hits)))
        elif not hits:
            raise LostAnchor("assumption anchor '%s' no longer matches %s" % (label, rel))
        u.assumption_anchors.append("%s: %s [%s]" % (rel, label, norm(text)[:160]))

    # ------------------------------------------------------------------
    def emit_const_bytes(self, u, rel, name):
        """`const N: &[u8] = &[a, b, ..];` re-emitted in the only form Verus accepts for a byte-slice
        constant; the literal list is copied from the real text and the ensures is checked by Verus."""
        sf = self.src(rel)
        it = sf.find_item("const", name)
        if it is None:
            raise LostAnchor("const %s not found in %s" % (name, rel))
        toks = sf.toks[it["kw_idx"]:it["end"] + 1]
        txt = [t.text for t in toks]
        try:
            eq = txt.index("=")
        except ValueError:
            raise LostAnchor("const %s has no initialiser" % name)
        init = txt[eq + 1:-1]
        if init[:2] != ["&", "["] or init[-1] != "]" or " ".join(txt[2:eq]) not in (": & [ u8 ]", ": & 'static [ u8 ]"):
            raise LostAnchor("const %s is no longer a byte-slice literal: %s" % (name, " ".join(txt)[:120]))
        elems = [e for e in init[2:-1] if e != ","]
        for e in elems:
            if not re.match(r"^(0x[0-9a-fA-F_]+|[0-9_]+)(u8)?$", e):
                raise LostAnchor("const %s: unexpected element %s" % (name, e))
        lit = ", ".join(elems)
        spec = ", ".join((e if e.endswith("u8") else e + "u8") for e in elems)
        u.extraction.append("const %s (%s): byte-slice constant re-emitted as `exec const` with checked ensures (declaration form only; values copied)" % (name, rel))
        u.items.append(dict(kind="const", name=name, file=rel, sha1=hashlib.sha1(" ".join(txt).encode()).hexdigest()))
        return ("exec const %s: &'static [u8]\n    ensures %s@ == seq![%s]\n{ let a: &'static [u8; %d] = &[%s]; a }" % (
            name, name, spec, len(elems), lit))

    # ------------------------------------------------------------------
    def emit_item(self, u, rel, kindname, kv):
        sf = self.src(rel)
        kind, name = kindname.split()
        it = sf.find_item(kind, name)
        if it is None:
            raise LostAnchor("item `%s %s` not found in %s" % (kind, name, rel))
        body = sf.text_of(it["start"], it["end"])
        dropped = sf.text_of(it["attr_start"], it["start"] - 1) if it["attr_start"] < it["start"] else ""
        pre = ""
        if "derive" in kv:
            pre = "#[derive(%s)]\n" % kv["derive"]
        if dropped:
            u.extraction.append("item %s %s (%s): dropped attributes %s%s" % (
                kind, name, rel, norm(dropped), (" ; re-emitted derive(%s)" % kv["derive"]) if "derive" in kv else ""))
        u.items.append(dict(kind=kind, name=name, file=rel, sha1=hashlib.sha1(body.encode()).hexdigest()))
        return pre + body

    # ------------------------------------------------------------------
    def emit_fn(self, u, f):
        sf = self.src(f.file)
        hit = sf.find_fn(f.container, f.name)
        if hit is None:
            raise LostAnchor("fn %s not found in `%s` of %s" % (f.name, f.container, f.file))
        toks = sf.toks
        has_body = "body_open" in hit
        last = hit["body_close"] if has_body else hit["semi"]
        base = toks[hit["start"]].start
        real_text = sf.text[base:toks[last].end]
        edits = []   # (offset_in_file, del_len, text)
        fid = f.id

        if hit["attr_start"] < hit["start"]:
            dropped = norm(sf.text_of(hit["attr_start"], hit["start"] - 1))
            if dropped not in ("# [ inline ]",):
                u.extraction.append("fn %s: dropped attributes %s" % (fid, dropped))

        # --- return value name
        sig_end = hit["body_open"] if has_body else hit["semi"]
        ret = f.opts.get("ret")
        if ret:
            j = hit["name_idx"]
            arrow = None
            k = j
            while k < sig_end:
                t = toks[k]
                if t.kind == "punct" and t.text in ("(", "[", "{"):
                    k = sf.match[k] + 1
                    continue
                if t.kind == "punct" and t.text == "->":
                    arrow = k
                    break
                k += 1
            if arrow is None:
                raise LostAnchor("fn %s has no return type to name (%s)" % (fid, ret))
            e = arrow + 1
            k = e
            while k < sig_end:
                t = toks[k]
                if t.kind == "punct" and t.text in ("(", "["):
                    k = sf.match[k] + 1
                    continue
                if t.kind == "ident" and t.text == "where":
                    break
                k += 1
            edits.append((toks[arrow + 1].start, 0, "(%s: " % ret))
            edits.append((toks[k - 1].end, 0, ")"))

        nobl = dict(ensures=0, requires=0, invariant=0, asserts=0, decreases=0)
        clause_samples = []
        # --- spec
        spec_text = "\n".join(f.spec) if f.spec is not None else ""
        extra_ens = ""
        if self.canary and has_body and "nocanary" not in f.opts:
            k = len(u.regions)
            rk, wrapped = self._region(u, "canary", fid, "post", "__canary(%d)" % k)
            u.canaries.append(rk)
            if re.search(r"\bensures\b", spec_text):
                # append to the existing ensures section (it is the last section unless decreases follows)
                m = list(re.finditer(r"\bensures\b", spec_text))[-1]
                spec_text = spec_text[:m.end()] + " " + wrapped + "," + spec_text[m.end():]
            else:
                # ensures must come before a `decreases` section, after `requires`
                md = re.search(r"\bdecreases\b", spec_text)
                if md:
                    spec_text = spec_text[:md.start()] + " ensures " + wrapped + ",\n" + spec_text[md.start():]
                else:
                    st = spec_text.rstrip()
                    if st and not st.endswith(","):
                        st += ","
                    spec_text = st + "\n    ensures " + wrapped + ",\n"
        if spec_text.strip():
            for sec, cl in split_clauses(spec_text):
                if sec in nobl and "__canary" not in cl:
                    nobl[sec] += 1
                    clause_samples.append("%s %s" % (sec, cl))
            rk, wrapped = self._region(u, "spec", fid, "", "\n" + spec_text.rstrip() + "\n")
            edits.append((toks[sig_end].start, 0, wrapped))

        loops_meta = []
        if has_body:
            bo, bc = hit["body_open"], hit["body_close"]
            # --- loops
            loop_idx = [k for k in range(bo + 1, bc) if toks[k].kind == "ident" and toks[k].text in LOOP_KW
                        and not (k > 0 and toks[k - 1].text in (".", "::"))
                        and not (toks[k].text == "for" and toks[k - 1].text in ("impl", ">") and False)]
            # `for<'a>` HRTB would be mistaken; none in the units
            loop_info = {}
            for n, k in enumerate(loop_idx, 1):
                # body `{` of the loop
                j = k + 1
                while j < bc:
                    t = toks[j]
                    if t.kind == "punct" and t.text in ("(", "["):
                        j = sf.match[j] + 1
                        continue
                    if t.kind == "punct" and t.text == "{":
                        break
                    j += 1
                in_idx = None
                if toks[k].text == "for":
                    q = k + 1
                    while q < j:
                        if toks[q].kind == "punct" and toks[q].text in ("(", "["):
                            q = sf.match[q] + 1
                            continue
                        if toks[q].kind == "ident" and toks[q].text == "in":
                            in_idx = q
                            break
                        q += 1
                loop_info[n] = dict(kw=k, open=j, close=sf.match[j], in_idx=in_idx)
            # loops named by their header text are located by that text (robust against reordering; a loop
            # that was deleted or whose header changed is simply left without invariant: what follows decides)
            if f.loop_headers:
                by_ord = dict(loop_info)
                remapped = {}
                for n, hdr in f.loop_headers.items():
                    want = norm(hdr)
                    found = None
                    for m, li in by_ord.items():
                        htxt = " ".join(t.text for t in toks[li["kw"]:li["open"]])
                        if htxt == want:
                            found = li
                            break
                    remapped[n] = found
                for n in list(loop_info):
                    if n in f.loop_headers:
                        del loop_info[n]
                for n, li in remapped.items():
                    if li is not None:
                        loop_info[n] = li
                    else:
                        u.extraction.append("fn %s: loop #%d `%s` NOT FOUND in the current tree; its invariant and proof hints are not spliced" % (fid, n, f.loop_headers[n]))
                        u.missing_outlines.append("%s/loop#%d" % (fid, n))
                # ordinals without a header keep their ordinal meaning among the remaining loops
            for n, (binder, buf) in f.loops.items():
                if n in f.loop_headers and n not in loop_info:
                    continue
                if n not in loop_info:
                    raise LostAnchor("fn %s: loop #%d not found (body has %d loops)" % (fid, n, len(loop_info)))
                li = loop_info[n]
                if binder:
                    if li["in_idx"] is None:
                        raise LostAnchor("fn %s: loop #%d is not a `for .. in` loop" % (fid, n))
                    edits.append((toks[li["in_idx"]].end, 0, " %s:" % binder))
                txt = "\n".join(buf)
                for sec, cl in split_clauses(txt):
                    if sec in nobl:
                        nobl[sec] += 1
                        clause_samples.append("loop#%d %s %s" % (n, sec, cl))
                rk, wrapped = self._region(u, "loop", fid, "loop#%d" % n, "\n" + txt.rstrip() + "\n")
                edits.append((toks[li["open"]].start, 0, wrapped))
                loops_meta.append(n)
            if self.canary and "nocanary" not in f.opts:
                edits.append((toks[bo].end, 0, self._canary_stmt(u, fid, "fn:start")))
                for n, li in loop_info.items():
                    if n in f.loops:
                        edits.append((toks[li["open"]].end, 0, self._canary_stmt(u, fid, "loop#%d:body" % n)))

            # --- anchors
            for anchor, buf in f.ats:
                txt = "\n".join(buf)
                ml = re.match(r"^loop:(\d+):", anchor)
                if ml and int(ml.group(1)) in f.loop_headers and int(ml.group(1)) not in loop_info:
                    continue
                try:
                    pos = self._anchor_pos(sf, hit, loop_info, anchor, fid)
                except LostAnchor as e:
                    # lenient: a proof hint whose anchor is gone is simply not spliced; what follows decides
                    # (a dangling ghost name makes the unit fail to compile = exit 2, never an alarm)
                    u.extraction.append("fn %s: ghost text at `%s` NOT spliced: %s" % (fid, anchor[:60], e))
                    u.missing_outlines.append("%s/at:%s" % (fid, anchor[:40]))
                    continue
                nobl["asserts"] += len(re.findall(r"\bassert\b", txt))
                rk, wrapped = self._region(u, "proof", fid, anchor, "\n" + txt.rstrip() + "\n")
                edits.append((pos, 0, wrapped))

            # --- outlines / rewrites
            for kind, label, abuf, wbuf in f.outlines:
                atext = "\n".join(abuf)
                hits = sf.find_token_seq(atext, hit["start"], bc + 1)
                if len(hits) == 0:
                    # lenient: leave the real text as it is.  Either Verus rejects the construct
                    # (exit 2, unsupported) or the remaining obligations decide (e.g. the statement
                    # was deleted and a postcondition now fails).
                    u.extraction.append("fn %s: %s [%s]: anchor text NOT FOUND in the current tree; real text left in place" % (fid, kind, label))
                    u.missing_outlines.append("%s/%s" % (fid, label))
                    continue
                every = label.rstrip().endswith("(every occurrence)")
                if len(hits) != 1 and not every:
                    raise LostAnchor("fn %s: %s '%s' anchor text found %d times: %s" % (
                        fid, kind, label, len(hits), norm(atext)[:120]))
                wtext0 = "\n".join(wbuf).strip("\n")
                want = [t.text for t in sig(lex(atext))]
                for (a, b) in hits:
                    # identifiers bound by the wildcards __w1, __w2, .. of the anchor are carried into the replacement
                    wtext = wtext0
                    for k, w in enumerate(want):
                        if w.startswith("__w") and w[3:].isdigit():
                            wtext = re.sub(r"\b%s\b" % w, toks[a + k].text, wtext)
                    rk, wrapped = self._region(u, kind, fid, label, wtext)
                    edits.append((toks[a].start, toks[b].end - toks[a].start, wrapped))
                u.extraction.append("fn %s: %s [%s]%s: `%s` => `%s`" % (fid, kind, label, (" x%d" % len(hits)) if every else "", norm(atext), norm(wtext)))
        else:
            if f.loops or f.ats or f.outlines:
                raise TemplateError("fn %s has no body but loop/at/outline sections" % fid)

        # apply edits
        edits.sort(key=lambda e: (e[0], -e[1]))
        # stable for equal offsets: keep template order
        res = []
        cur = base
        for off, dl, txt in edits:
            if off < cur:
                raise TemplateError("fn %s: overlapping splices at %d" % (fid, off))
            res.append(sf.text[cur:off])
            res.append(txt)
            cur = off + dl
        res.append(sf.text[cur:toks[last].end])
        body = "".join(res)
        if has_body and loops_meta:
            # facts established before a loop stay visible inside it: a local hoisted out of a loop condition
            # (let n = v.len(); while i < n ..) must not break a proof
            body = "#[verifier::loop_isolation(false)]\n" + body
        rk, wrapped = self._region(u, "fn", fid, "", body)
        calls = []
        if has_body:
            for k in range(hit["body_open"], hit["body_close"]):
                if toks[k].kind == "ident" and toks[k + 1].text == "(" and toks[k].text not in LOOP_KW + ("if", "match", "Some", "Ok", "Err", "None", "return"):
                    calls.append(toks[k].text)
        u.functions.append(dict(
            id=fid, file=f.file, container=f.container, name=f.name, has_body=has_body,
            sha1=hashlib.sha1(real_text.encode()).hexdigest(),
            lines=real_text.count("\n") + 1, counts=nobl, clauses=clause_samples, calls=calls,
            has_requires=nobl["requires"] > 0, region=rk, trusted=not has_body and False))
        return wrapped

    def _canary_stmt(self, u, fid, where):
        k = len(u.regions)
        rk, wrapped = self._region(u, "canary", fid, where, " proof { assert(__canary(%d)); } " % k)
        u.canaries.append(rk)
        return wrapped

    def _anchor_pos(self, sf, hit, loop_info, anchor, fid):
        toks = sf.toks
        bo, bc = hit["body_open"], hit["body_close"]
        m = re.match(r"^(before|after)\s*:\s*(.*)$", anchor, re.S)
        if m:
            hits = sf.find_token_seq(m.group(2), bo, bc + 1)
            if len(hits) != 1:
                raise LostAnchor("fn %s: anchor text found %d times: %s" % (fid, len(hits), m.group(2)[:100]))
            a, b = hits[0]
            return toks[a].start if m.group(1) == "before" else toks[b].end
        if anchor == "fn:start":
            return toks[bo].end
        if anchor == "fn:end":
            return toks[bc].start
        if anchor == "fn:tail":
            return self._tail_pos(sf, bo, bc)
        m = re.match(r"^loop:(\d+):(before|body_start|body_end|after)$", anchor)
        if m:
            n = int(m.group(1))
            if n not in loop_info:
                raise LostAnchor("fn %s: loop #%d not found" % (fid, n))
            li = loop_info[n]
            w = m.group(2)
            if w == "before":
                k = li["kw"]
                # a loop label  'a: for ..
                if toks[k - 1].text == ":" and toks[k - 2].kind == "lifetime":
                    k -= 2
                return toks[k].start
            if w == "body_start":
                return toks[li["open"]].end
            if w == "body_end":
                return toks[li["close"]].start
            return toks[li["close"]].end
        m = re.match(r"^call:([A-Za-z_0-9]+)#(\d+):(before|after)$", anchor)
        if m:
            name, kth, w = m.group(1), int(m.group(2)), m.group(3)
            idx = [k for k in range(bo + 1, bc) if toks[k].kind == "ident" and toks[k].text == name
                   and toks[k + 1].text == "("]
            if len(idx) < kth:
                raise LostAnchor("fn %s: call %s#%d not found (%d calls)" % (fid, name, kth, len(idx)))
            k = idx[kth - 1]
            # enclosing brace block
            enc = bo
            for o in range(k, bo - 1, -1):
                if toks[o].text == "{" and sf.match[o] > k and toks[o].kind == "punct":
                    enc = o
                    break
            # statement start: scan back at depth(enc)+1, skipping nested groups
            s = k
            j = k - 1
            while j > enc:
                t = toks[j]
                if t.kind == "punct" and t.text in (")", "]", "}"):
                    if t.text == "}" and sf.depth[j] == sf.depth[enc] + 1 and self._paren_free(sf, enc, j):
                        break
                    j = sf.match[j] - 1
                    continue
                if t.kind == "punct" and t.text == ";" and self._paren_free(sf, enc, j):
                    break
                if t.kind == "punct" and t.text in ("(", "["):
                    j -= 1
                    continue
                j -= 1
            s = j + 1
            if w == "before":
                return toks[s].start
            j = k
            end = sf.match[enc]
            while j < end:
                t = toks[j]
                if t.kind == "punct" and t.text in ("(", "[", "{"):
                    j = sf.match[j] + 1
                    continue
                if t.kind == "punct" and t.text == ";":
                    return t.end
                if t.kind == "punct" and t.text in (")", "]"):
                    j += 1
                    continue
                j += 1
            raise LostAnchor("fn %s: statement end of call %s#%d not found" % (fid, name, kth))
        raise TemplateError("fn %s: unknown anchor %s" % (fid, anchor))

    @staticmethod
    def _tail_pos(sf, bo, bc):
        """offset just before the tail expression of the block bo..bc (before the closing
        brace when the block has no tail expression).  Statement boundaries at block depth:
        `;`, and the closing brace of a block-like expression statement (if / match / for /
        while / loop / unsafe / bare block / proof) unless followed by `else`."""
        toks = sf.toks
        BLOCKLIKE = ("if", "match", "for", "while", "loop", "unsafe", "proof")
        last = bo + 1            # token index where the current statement starts
        j = bo + 1
        stmt_start = bo + 1
        while j < bc:
            t = toks[j]
            if t.kind == "punct" and t.text in ("(", "["):
                j = sf.match[j] + 1
                continue
            if t.kind == "punct" and t.text == "{":
                c = sf.match[j]
                first = toks[stmt_start]
                k = stmt_start
                # skip a loop label
                if first.kind == "lifetime" and toks[k + 1].text == ":":
                    first = toks[k + 2]
                blocklike = (first.kind == "ident" and first.text in BLOCKLIKE) or (first.kind == "punct" and first.text == "{")
                j = c + 1
                if blocklike and not (j < bc and toks[j].kind == "ident" and toks[j].text == "else"):
                    stmt_start = j
                continue
            if t.kind == "punct" and t.text == ";":
                stmt_start = j + 1
            j += 1
        if stmt_start >= bc:
            return toks[bc].start
        return toks[stmt_start].start

    @staticmethod
    def _paren_free(sf, enc, j):
        """token j is not inside a ( or [ group opened after enc."""
        d = 0
        for k in range(enc + 1, j):
            t = sf.toks[k]
            if t.kind == "punct" and t.text in ("(", "["):
                d += 1
            elif t.kind == "punct" and t.text in (")", "]"):
                d -= 1
        return d == 0


if __name__ == "__main__":
    import argparse
    ap = argparse.ArgumentParser()
    ap.add_argument("template")
    ap.add_argument("--repo", default="/repo")
    ap.add_argument("--canary", action="store_true")
    ap.add_argument("-o", "--out")
    a = ap.parse_args()
    g = Generator(a.repo, canary=a.canary)
    u = g.generate(a.template, os.path.basename(a.template).split(".")[0])
    if a.out:
        open(a.out, "w").write(u.text)
    else:
        sys.stdout.write(u.text)
    for f in u.functions:
        sys.stderr.write("fn %-50s %s %s\n" % (f["id"], f["sha1"][:8], f["counts"]))
    for e in u.extraction:
        sys.stderr.write("extraction: %s\n" % e)
